// +build !force32bit

package curve25519

const vNLimbs = 5

func vLimbOff(i int) int  { return 51 * i }
func vLimbBits(i int) int { return 51 }
func vLimbZ(x *Bignum25519, i int) vZ { return vZu(x[i]) }
func vLimbLt(x *Bignum25519, i int, bits int) bool { return x[i] < uint64(1)<<uint(bits) }
func vLimbLe(x *Bignum25519, i int, m uint64) bool { return x[i] <= m }
func vFreshFE(name string) Bignum25519 {
	var x Bignum25519
	for i := 0; i < vNLimbs; i++ {
		x[i] = vU64(name + string(rune('0'+i)))
	}
	return x
}
// limb i of 2p and 4p (the bias constants of Sub / SubAfterBasic)
func vTwoP(i int) uint64 {
	if i == 0 {
		return twoP0
	}
	return twoP1234
}
func vFourP(i int) uint64 {
	if i == 0 {
		return fourP0
	}
	return fourP1234
}

func vSwap(a, b *Bignum25519, flag uint64) { SwapConditional(a, b, flag) }
const vMulExtra = 3
