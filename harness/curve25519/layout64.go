// +build amd64 force64bit
// +build !force32bit

package curve25519

const vNLimbs = 5

func vLimbOff(i int) int  { return 51 * i }
func vLimbBits(i int) int { return 51 }
func vLimbZ(x *Bignum25519, i int) vZ { return vZu(x[i]) }
func vLimbLt(x *Bignum25519, i int, bits int) bool { return x[i] < uint64(1)<<uint(bits) }
func vLimbLe(x *Bignum25519, i int, m uint64) bool { return x[i] <= m }
func vFreshFE(name string) Bignum25519 {
	var x Bignum25519
	for i := 0; i < vNLimbs; i++ {
		x[i] = vU64(name + string(rune('0'+i)))
	}
	return x
}
// limb i of 2p and 4p (the bias constants of Sub / SubAfterBasic)
func vTwoP(i int) uint64 {
	if i == 0 {
		return twoP0
	}
	return twoP1234
}
func vFourP(i int) uint64 {
	if i == 0 {
		return fourP0
	}
	return fourP1234
}

func vSwap(a, b *Bignum25519, flag uint64) { SwapConditional(a, b, flag) }

// class limits of the 5x51 layout, in units of 1/64 of the nominal limb size (limb_i <= s * 2^bits(i) / 64);
// the group-law harnesses (C09/C10/C16) check every call site against exactly these numbers
const (
	vSAddIn     = 512 // Add, AddAfterBasic, AddReduce: each operand
	vSSubA      = 512 // minuend of Sub, SubAfterBasic, SubReduce
	vSSubB      = 127 // subtrahend of Sub, Neg operand   (<= 2p limb-wise)
	vSSubBAfter = 255 // subtrahend of SubAfterBasic, SubReduce (<= 4p limb-wise)
	vSMulIn     = 512 // Mul operands (limbs <= 2^54)
	vSSquareIn  = 512 // Square / SquareTimes operand
	vSContract  = 256 // Contract operand
	vSReduced   = 65  // output of the carrying operations
	vSSubOut    = 128 // Sub: out <= a + 128
	vSSubAfterOut = 256 // SubAfterBasic: out <= a + 256 (64-bit layout does not carry)
	vAddAfterCarries = false
)

// operand class pairs (first argument, second argument) for which Mul is proved on this layout
var vMulPairs = [][2][vNLimbs]int{
	{{512, 512, 512, 512, 512}, {512, 512, 512, 512, 512}},
}

// Sub does not carry on this layout: out_i <= a_i + 2p_i
func vSubOutOK(out, a *Bignum25519) bool {
	ok := true
	for i := 0; i < vNLimbs; i++ {
		ok = ok && out[i] <= a[i]+vTwoP(i)
	}
	return ok
}
