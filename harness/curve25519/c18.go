package curve25519

const vP = "57896044618658097711785492504343953926634992332820282019728792003956564819949"

// integer value of a limb vector (both layouts)
func vVal(x *Bignum25519) vZ {
	v := vZi(0)
	for i := 0; i < vNLimbs; i++ {
		v = v.Add(vLimbZ(x, i).Shl(vLimbOff(i)))
	}
	return v
}

// every limb below 2^(nominal bits + extra)
func vLimbsBelow(x *Bignum25519, extra int) bool {
	ok := true
	for i := 0; i < vNLimbs; i++ {
		ok = ok && vLimbLt(x, i, vLimbBits(i)+extra)
	}
	return ok
}

// a == b (mod p), witnessed by a small multiple of p: a - b = k p for some |k| <= 16 (no division for the
// bit-blaster; the carrying operations fold at most a few multiples of p)
func vCongruent(a, b vZ) bool {
	d := a.Sub(b)
	P := vZc(vP)
	ok := false
	for k := -16; k <= 16; k++ {
		ok = ok || d.Eq(P.Mul(vZi(k)))
	}
	return ok
}

// limb_i <= s * 2^bits(i) / 64 for every limb
func vScaled(x *Bignum25519, s int) bool {
	ok := true
	for i := 0; i < vNLimbs; i++ {
		ok = ok && vLimbLe(x, i, (uint64(s)<<uint(vLimbBits(i)))>>6)
	}
	return ok
}

func vScaledV(x *Bignum25519, v [vNLimbs]int) bool {
	ok := true
	for i := 0; i < vNLimbs; i++ {
		ok = ok && vLimbLe(x, i, (uint64(v[i])<<uint(vLimbBits(i)))>>6)
	}
	return ok
}

// C18: Add is exact limb-wise addition (no wrap) for operands in class
func vh_C18_Add() {
	a, b := vFreshFE("a"), vFreshFE("b")
	vAssume(vScaled(&a, vSAddIn) && vScaled(&b, vSAddIn))
	var out Bignum25519
	Add(&out, &a, &b)
	vReach("Add returned")
	vAssert(vVal(&out).Eq(vVal(&a).Add(vVal(&b))), "Add: value(out) = value(a) + value(b) exactly")
	limbwise := true
	for i := 0; i < vNLimbs; i++ {
		limbwise = limbwise && out[i] == a[i]+b[i]
	}
	vAssert(limbwise && vScaled(&out, 2*vSAddIn), "Add: out_i = a_i + b_i without wrap")
}

// C18: Sub adds the 2p bias: exact for subtrahend limbs up to the bias limbs, no underflow
func vh_C18_Sub() {
	a, b := vFreshFE("a"), vFreshFE("b")
	vAssume(vScaled(&a, vSSubA) && vScaled(&b, vSSubB))
	var out Bignum25519
	Sub(&out, &a, &b)
	vReach("Sub returned")
	vAssert(vCongruent(vVal(&out), vVal(&a).Sub(vVal(&b))), "Sub: value(out) == value(a) - value(b) (mod p)")
	vAssert(vSubOutOK(&out, &a), "Sub: output limbs <= a_i + 2p_i (+carry); carried limbs below 2^bits")
}

// C18: SubAfterBasic adds the 4p bias: exact for subtrahend limbs up to the 4p limbs
func vh_C18_SubAfterBasic() {
	a, b := vFreshFE("a"), vFreshFE("b")
	vAssume(vScaled(&a, vSSubA) && vScaled(&b, vSSubBAfter))
	var out Bignum25519
	SubAfterBasic(&out, &a, &b)
	vReach("SubAfterBasic returned")
	vAssert(vCongruent(vVal(&out), vVal(&a).Sub(vVal(&b))), "SubAfterBasic: value(out) == value(a) - value(b) (mod p)")
	if vSSubAfterOut == 0 {
		vAssert(vScaled(&out, vSReduced), "SubAfterBasic: output reduced (this layout carries)")
	} else {
		vAssert(vScaled(&out, vSSubA+vSSubAfterOut), "SubAfterBasic: output limbs <= a-bound + 4p")
	}
}

func vh_C18_AddAfterBasic() {
	a, b := vFreshFE("a"), vFreshFE("b")
	vAssume(vScaled(&a, vSAddIn) && vScaled(&b, vSAddIn))
	var out Bignum25519
	AddAfterBasic(&out, &a, &b)
	vReach("AddAfterBasic returned")
	vAssert(vCongruent(vVal(&out), vVal(&a).Add(vVal(&b))), "AddAfterBasic: value(out) == value(a) + value(b) (mod p)")
	if vAddAfterCarries {
		vAssert(vScaled(&out, vSReduced), "AddAfterBasic: output reduced (this layout carries)")
	} else {
		vAssert(vScaled(&out, 2*vSAddIn), "AddAfterBasic: output limbs <= sum of the operand bounds")
	}
}

// C18: the carrying forms return a reduced representation of the exact residue
func vh_C18_AddReduce() {
	a, b := vFreshFE("a"), vFreshFE("b")
	vAssume(vScaled(&a, vSAddIn) && vScaled(&b, vSAddIn))
	var out Bignum25519
	AddReduce(&out, &a, &b)
	vReach("AddReduce returned")
	vAssert(vCongruent(vVal(&out), vVal(&a).Add(vVal(&b))), "AddReduce: value(out) == value(a) + value(b) (mod p)")
	vAssert(vScaled(&out, vSReduced), "AddReduce: output reduced")
}

func vh_C18_SubReduce() {
	a, b := vFreshFE("a"), vFreshFE("b")
	vAssume(vScaled(&a, vSSubA) && vScaled(&b, vSSubBAfter))
	var out Bignum25519
	SubReduce(&out, &a, &b)
	vReach("SubReduce returned")
	vAssert(vCongruent(vVal(&out), vVal(&a).Sub(vVal(&b))), "SubReduce: value(out) == value(a) - value(b) (mod p)")
	vAssert(vScaled(&out, vSReduced), "SubReduce: output reduced")
}

func vh_C18_Neg() {
	a := vFreshFE("a")
	vAssume(vScaled(&a, vSSubB))
	var out Bignum25519
	Neg(&out, &a)
	vReach("Neg returned")
	vAssert(vCongruent(vVal(&out).Add(vVal(&a)), vZi(0)), "Neg: value(out) + value(a) == 0 (mod p)")
	vAssert(vScaled(&out, vSReduced), "Neg: output reduced")
}

// C18: parsing ignores bit 255 and yields reduced limbs
func vh_C18_Expand() {
	b := vBytes("b", 32)
	var out Bignum25519
	Expand(&out, b)
	vReach("Expand returned")
	vAssert(vVal(&out).Eq(vZle(b).Mod(vZi(1).Shl(255))), "Expand: value = low 255 bits of the little-endian integer")
	vAssert(vScaled(&out, 64), "Expand: limbs below 2^bits")
}

// C18: serialisation returns the unique canonical value below p for every representation with limbs up
// to 4x the nominal size (includes p, p+1, 2p-1, 2^255-1 and all unreduced outputs of Mul/Square/Add/Sub)
func vh_C18_Contract() {
	a := vFreshFE("a")
	vAssume(vScaled(&a, vSContract))
	out := make([]byte, 32)
	Contract(out, &a)
	vReach("Contract returned")
	vAssert(vZle(out).Eq(vVal(&a).Mod(vZc(vP))), "Contract: bytes = value mod p (canonical)")
}

func vh_C18_SwapConditional() {
	a, b := vFreshFE("a"), vFreshFE("b")
	a0, b0 := a, b
	sw := vBool("swap")
	var flag uint64
	if sw {
		flag = 1
	}
	vSwap(&a, &b, flag)
	vReach("SwapConditional returned")
	if sw {
		vAssert(a == b0 && b == a0, "SwapConditional(1) swaps")
	} else {
		vAssert(a == a0 && b == b0, "SwapConditional(0) is a no-op")
	}
}

func vh_C18_Copy() {
	a := vFreshFE("a")
	var out Bignum25519
	Copy(&out, &a)
	vAssert(out == a, "Copy copies every limb")
}
