package curve25519

const vP = "57896044618658097711785492504343953926634992332820282019728792003956564819949"

// integer value of a limb vector (both layouts)
func vVal(x *Bignum25519) vZ {
	v := vZi(0)
	for i := 0; i < vNLimbs; i++ {
		v = v.Add(vLimbZ(x, i).Shl(vLimbOff(i)))
	}
	return v
}

// every limb below 2^(nominal bits + extra)
func vLimbsBelow(x *Bignum25519, extra int) bool {
	ok := true
	for i := 0; i < vNLimbs; i++ {
		ok = ok && vLimbLt(x, i, vLimbBits(i)+extra)
	}
	return ok
}

// "reduced" output form of the carrying operations: every limb below 2^bits except limb 0 (64-bit layout:
// limb 0 may exceed by the folded carry, < 2^bits + 19*2^k) -- stated as below 2^(bits+1)
func vReducedOut(x *Bignum25519) bool { return vLimbsBelow(x, 1) }

// a == b (mod p), witnessed by a small multiple of p: a - b = k p for some |k| <= 16 (no division for the
// bit-blaster; the carrying operations fold at most a few multiples of p)
func vCongruent(a, b vZ) bool {
	d := a.Sub(b)
	P := vZc(vP)
	ok := false
	for k := -16; k <= 16; k++ {
		ok = ok || d.Eq(P.Mul(vZi(k)))
	}
	return ok
}

// C18: Add is exact limb-wise addition (no wrap) for operands up to 8x the nominal limb size
func vh_C18_Add() {
	a, b := vFreshFE("a"), vFreshFE("b")
	vAssume(vLimbsBelow(&a, 3) && vLimbsBelow(&b, 3))
	var out Bignum25519
	Add(&out, &a, &b)
	vReach("Add returned")
	vAssert(vVal(&out).Eq(vVal(&a).Add(vVal(&b))), "Add: value(out) = value(a) + value(b) exactly")
	vAssert(vLimbsBelow(&out, 4), "Add: output limbs below 2^(bits+4)")
}

// C18: Sub adds the 2p bias: exact for subtrahend limbs up to the bias limbs (reduced operands), no underflow
func vh_C18_Sub() {
	a, b := vFreshFE("a"), vFreshFE("b")
	vAssume(vLimbsBelow(&a, 2))
	okb := true
	for i := 0; i < vNLimbs; i++ {
		okb = okb && vLimbLe(&b, i, vTwoP(i))
	}
	vAssume(okb)
	var out Bignum25519
	Sub(&out, &a, &b)
	vReach("Sub returned")
	vAssert(vCongruent(vVal(&out), vVal(&a).Sub(vVal(&b))), "Sub: value(out) == value(a) - value(b) (mod p)")
	vAssert(vLimbsBelow(&out, 3), "Sub: output limbs below 2^(bits+3)")
}

// C18: SubAfterBasic adds the 4p bias: exact for subtrahend limbs up to the 4p limbs
func vh_C18_SubAfterBasic() {
	a, b := vFreshFE("a"), vFreshFE("b")
	vAssume(vLimbsBelow(&a, 2))
	okb := true
	for i := 0; i < vNLimbs; i++ {
		okb = okb && vLimbLe(&b, i, vFourP(i))
	}
	vAssume(okb)
	var out Bignum25519
	SubAfterBasic(&out, &a, &b)
	vReach("SubAfterBasic returned")
	vAssert(vCongruent(vVal(&out), vVal(&a).Sub(vVal(&b))), "SubAfterBasic: value(out) == value(a) - value(b) (mod p)")
	vAssert(vLimbsBelow(&out, 3), "SubAfterBasic: output limbs below 2^(bits+3)")
}

func vh_C18_AddAfterBasic() {
	a, b := vFreshFE("a"), vFreshFE("b")
	vAssume(vLimbsBelow(&a, 3) && vLimbsBelow(&b, 3))
	var out Bignum25519
	AddAfterBasic(&out, &a, &b)
	vReach("AddAfterBasic returned")
	vAssert(vCongruent(vVal(&out), vVal(&a).Add(vVal(&b))), "AddAfterBasic: value(out) == value(a) + value(b) (mod p)")
	vAssert(vLimbsBelow(&out, 4), "AddAfterBasic: output limbs below 2^(bits+4)")
}

// C18: the carrying forms return a reduced representation of the exact residue
func vh_C18_AddReduce() {
	a, b := vFreshFE("a"), vFreshFE("b")
	vAssume(vLimbsBelow(&a, 3) && vLimbsBelow(&b, 3))
	var out Bignum25519
	AddReduce(&out, &a, &b)
	vReach("AddReduce returned")
	vAssert(vCongruent(vVal(&out), vVal(&a).Add(vVal(&b))), "AddReduce: value(out) == value(a) + value(b) (mod p)")
	vAssert(vReducedOut(&out), "AddReduce: output reduced")
}

func vh_C18_SubReduce() {
	a, b := vFreshFE("a"), vFreshFE("b")
	vAssume(vLimbsBelow(&a, 2))
	okb := true
	for i := 0; i < vNLimbs; i++ {
		okb = okb && vLimbLe(&b, i, vFourP(i))
	}
	vAssume(okb)
	var out Bignum25519
	SubReduce(&out, &a, &b)
	vReach("SubReduce returned")
	vAssert(vCongruent(vVal(&out), vVal(&a).Sub(vVal(&b))), "SubReduce: value(out) == value(a) - value(b) (mod p)")
	vAssert(vReducedOut(&out), "SubReduce: output reduced")
}

func vh_C18_Neg() {
	a := vFreshFE("a")
	oka := true
	for i := 0; i < vNLimbs; i++ {
		oka = oka && vLimbLe(&a, i, vTwoP(i))
	}
	vAssume(oka)
	var out Bignum25519
	Neg(&out, &a)
	vReach("Neg returned")
	vAssert(vCongruent(vVal(&out).Add(vVal(&a)), vZi(0)), "Neg: value(out) + value(a) == 0 (mod p)")
	vAssert(vReducedOut(&out), "Neg: output reduced")
}

// C18: parsing ignores bit 255 and yields reduced limbs
func vh_C18_Expand() {
	b := vBytes("b", 32)
	var out Bignum25519
	Expand(&out, b)
	vReach("Expand returned")
	vAssert(vVal(&out).Eq(vZle(b).Mod(vZi(1).Shl(255))), "Expand: value = low 255 bits of the little-endian integer")
	vAssert(vLimbsBelow(&out, 0), "Expand: limbs below 2^bits")
}

// C18: serialisation returns the unique canonical value below p for every representation with limbs up
// to 4x the nominal size (includes p, p+1, 2p-1, 2^255-1 and all unreduced outputs of Mul/Square/Add/Sub)
func vh_C18_Contract() {
	a := vFreshFE("a")
	vAssume(vLimbsBelow(&a, 2))
	out := make([]byte, 32)
	Contract(out, &a)
	vReach("Contract returned")
	vAssert(vZle(out).Eq(vVal(&a).Mod(vZc(vP))), "Contract: bytes = value mod p (canonical)")
}

func vh_C18_SwapConditional() {
	a, b := vFreshFE("a"), vFreshFE("b")
	a0, b0 := a, b
	sw := vBool("swap")
	var flag uint64
	if sw {
		flag = 1
	}
	vSwap(&a, &b, flag)
	vReach("SwapConditional returned")
	if sw {
		vAssert(a == b0 && b == a0, "SwapConditional(1) swaps")
	} else {
		vAssert(a == a0 && b == b0, "SwapConditional(0) is a no-op")
	}
}

func vh_C18_Copy() {
	a := vFreshFE("a")
	var out Bignum25519
	Copy(&out, &a)
	vAssert(out == a, "Copy copies every limb")
}
