package curve25519

// input class of Mul/Square: limbs up to 2^(bits + vMulExtra)
func vCongruentModP(a, b vZ) bool { return a.Sub(b).Mod(vZc(vP)).Eq(vZi(0)) }

// C18: Mul returns a reduced representation of the exact product residue for all operands in the class the
// group law produces (64-bit layout: limbs < 2^54; 32-bit layout: limbs < 2^(bits+1))
func vh_C18_Mul() {
	a, b := vFreshFE("a"), vFreshFE("b")
	vAssume(vLimbsBelow(&a, vMulExtra) && vLimbsBelow(&b, vMulExtra))
	var out Bignum25519
	Mul(&out, &a, &b)
	vReach("Mul returned")
	vAssert(vCongruentModP(vVal(&out), vVal(&a).Mul(vVal(&b))), "Mul: value(out) == value(a) * value(b) (mod p)")
	vAssert(vReducedOut(&out), "Mul: output reduced")
}

func vh_C18_Square() {
	a := vFreshFE("a")
	vAssume(vLimbsBelow(&a, vMulExtra))
	var out Bignum25519
	Square(&out, &a)
	vReach("Square returned")
	vAssert(vCongruentModP(vVal(&out), vVal(&a).Mul(vVal(&a))), "Square: value(out) == value(a)^2 (mod p)")
	vAssert(vReducedOut(&out), "Square: output reduced")
}

// one iteration of SquareTimes from an arbitrary in-class state (inductive step for the long chains)
func vh_C18_SquareTimes_step() {
	a := vFreshFE("a")
	vAssume(vLimbsBelow(&a, vMulExtra))
	var out Bignum25519
	SquareTimes(&out, &a, 1)
	vReach("SquareTimes(1) returned")
	vAssert(vCongruentModP(vVal(&out), vVal(&a).Mul(vVal(&a))), "SquareTimes(.,1): value(out) == value(a)^2 (mod p)")
	vAssert(vReducedOut(&out), "SquareTimes: output reduced (so the next iteration is in class)")
}
