package curve25519

// input class of Mul/Square: limbs up to 2^(bits + vMulExtra)
func vCongruentModP(a, b vZ) bool { return a.Sub(b).Mod(vZc(vP)).Eq(vZi(0)) }

// C18: Mul returns a reduced representation of the exact product residue for all operands in the class the
// group law produces (table vMulPairs: 64-bit layout limbs <= 2^54 on both operands; 32-bit layout the four
// (first, second) operand class pairs that occur, checked call site by call site in the C09/C10/C16 harnesses)
func vh_C18_Mul() {
	k := vCase(0, len(vMulPairs)-1)
	a, b := vFreshFE("a"), vFreshFE("b")
	vAssume(vScaledV(&a, vMulPairs[k][0]) && vScaledV(&b, vMulPairs[k][1]))
	var out Bignum25519
	Mul(&out, &a, &b)
	vReach("Mul returned")
	vAssert(vCongruentModP(vVal(&out), vVal(&a).Mul(vVal(&b))), "Mul: value(out) == value(a) * value(b) (mod p)")
	vAssert(vScaled(&out, vSReduced), "Mul: output reduced")
}

func vh_C18_Square() {
	a := vFreshFE("a")
	vAssume(vScaled(&a, vSSquareIn))
	var out Bignum25519
	Square(&out, &a)
	vReach("Square returned")
	vAssert(vCongruentModP(vVal(&out), vVal(&a).Mul(vVal(&a))), "Square: value(out) == value(a)^2 (mod p)")
	vAssert(vScaled(&out, vSReduced), "Square: output reduced")
}

// one iteration of SquareTimes from an arbitrary in-class state (inductive step for the long chains)
func vh_C18_SquareTimes_step() {
	a := vFreshFE("a")
	vAssume(vScaled(&a, vSSquareIn))
	var out Bignum25519
	SquareTimes(&out, &a, 1)
	vReach("SquareTimes(1) returned")
	vAssert(vCongruentModP(vVal(&out), vVal(&a).Mul(vVal(&a))), "SquareTimes(.,1): value(out) == value(a)^2 (mod p)")
	vAssert(vScaled(&out, vSReduced), "SquareTimes: output reduced (so the next iteration is in class)")
}
