// +build force32bit

package curve25519

const vNLimbs = 10

func vLimbOff(i int) int { return (51*i + 1) / 2 } // 0,26,51,77,102,...
func vLimbBits(i int) int {
	if i%2 == 0 {
		return 26
	}
	return 25
}
func vLimbZ(x *Bignum25519, i int) vZ { return vZu(uint64(x[i])) }
func vLimbLt(x *Bignum25519, i int, bits int) bool { return uint64(x[i]) < uint64(1)<<uint(bits) }
func vLimbLe(x *Bignum25519, i int, m uint64) bool { return uint64(x[i]) <= m }
func vFreshFE(name string) Bignum25519 {
	var x Bignum25519
	for i := 0; i < vNLimbs; i++ {
		x[i] = vU32(name + string(rune('0'+i)))
	}
	return x
}
func vTwoP(i int) uint64 {
	switch {
	case i == 0:
		return twoP0
	case i%2 == 1:
		return twoP13579
	}
	return twoP2468
}
func vFourP(i int) uint64 {
	switch {
	case i == 0:
		return fourP0
	case i%2 == 1:
		return fourP13579
	}
	return fourP2468
}

func vSwap(a, b *Bignum25519, flag uint64) { SwapConditional(a, b, flag) }
const vMulExtra = 1
