// +build 386 force32bit
// +build !force64bit

package curve25519

const vNLimbs = 10

func vLimbOff(i int) int { return (51*i + 1) / 2 } // 0,26,51,77,102,...
func vLimbBits(i int) int {
	if i%2 == 0 {
		return 26
	}
	return 25
}
func vLimbZ(x *Bignum25519, i int) vZ { return vZu(uint64(x[i])) }
func vLimbLt(x *Bignum25519, i int, bits int) bool { return uint64(x[i]) < uint64(1)<<uint(bits) }
func vLimbLe(x *Bignum25519, i int, m uint64) bool { return uint64(x[i]) <= m }
func vFreshFE(name string) Bignum25519 {
	var x Bignum25519
	for i := 0; i < vNLimbs; i++ {
		x[i] = vU32(name + string(rune('0'+i)))
	}
	return x
}
func vTwoP(i int) uint64 {
	switch {
	case i == 0:
		return twoP0
	case i%2 == 1:
		return twoP13579
	}
	return twoP2468
}
func vFourP(i int) uint64 {
	switch {
	case i == 0:
		return fourP0
	case i%2 == 1:
		return fourP13579
	}
	return fourP2468
}

func vSwap(a, b *Bignum25519, flag uint64) { SwapConditional(a, b, flag) }

// class limits of the 10x25.5 layout (units of 1/64 of the nominal limb size)
const (
	vSAddIn     = 200
	vSSubA      = 200
	vSSubB      = 127
	vSSubBAfter = 255
	vSMulIn     = 194 // Mul operands
	vSSquareIn  = 132 // Square / SquareTimes operand
	vSContract  = 200
	vSReduced   = 65
	vSSubOut    = 129 // Sub carries limbs 0..3 only: out <= a + 2p + carry
	vSSubAfterOut = 0 // SubAfterBasic carries fully on this layout: output reduced
	vAddAfterCarries = true
)

// operand class pairs (first argument, second argument) for which Mul is proved on this layout: the pairs the
// group law produces (sum of two reduced values: 130 everywhere; output of Sub: limbs 0..3 carried, 4..9 up to 194)
var vMulPairs = [][2][vNLimbs]int{
	{{130, 130, 130, 130, 130, 130, 130, 130, 130, 130}, {130, 130, 130, 130, 130, 130, 130, 130, 130, 130}},
	{{65, 65, 65, 65, 194, 194, 194, 194, 194, 194}, {65, 65, 65, 65, 194, 194, 194, 194, 194, 194}},
	{{65, 65, 65, 65, 194, 194, 194, 194, 194, 194}, {130, 130, 130, 130, 130, 130, 130, 130, 130, 130}},
	{{130, 130, 130, 130, 130, 130, 130, 130, 130, 130}, {65, 65, 65, 65, 194, 194, 194, 194, 194, 194}},
}

// Sub carries limbs 0..3 only: those come out below 2^bits + carry, the rest are at most a_i + 2p_i + carry
func vSubOutOK(out, a *Bignum25519) bool {
	ok := true
	for i := 0; i < vNLimbs; i++ {
		if i < 4 {
			ok = ok && uint64(out[i]) < uint64(1)<<uint(vLimbBits(i))
		} else {
			ok = ok && uint64(out[i]) <= uint64(a[i])+vTwoP(i)+8
		}
	}
	return ok
}
