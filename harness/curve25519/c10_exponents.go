package curve25519

// C10/C18: exponent tracking through the two long addition chains.  Mul / Square / SquareTimes are replaced
// by arithmetic on a concrete exponent (value cell = e meaning z^e): Mul adds, Square doubles, SquareTimes(n)
// multiplies by 2^n.  The obligations are equalities between constants: Recip computes z^(p-2) and
// PowTwo252m3 computes z^((p-5)/8).  (That each real Mul / Square / SquareTimes step is the exact field
// operation is C18.)

func vc_expMul(out, a, b *Bignum25519) { vPut(out, vGetZ(a).Add(vGetZ(b))) }
func vc_expSquare(out, a *Bignum25519)  { vPut(out, vGetZ(a).Mul(vZi(2))) }
func vc_expSquareTimes(out, a *Bignum25519, count int) {
	vAssert(count >= 1, "SquareTimes count is positive")
	vPut(out, vGetZ(a).Shl(count))
}

func vExpCuts() {
	vReplace(Mul, vc_expMul)
	vReplace(Square, vc_expSquare)
	vReplace(SquareTimes, vc_expSquareTimes)
}

func vh_C10_Recip_exponent() {
	vExpCuts()
	var z, out Bignum25519
	vPut(&z, vZi(1))
	Recip(&out, &z)
	vAssert(vGetZ(&out).Eq(vZc(vP).Sub(vZi(2))), "Recip(z) = z^(p-2)")
	// in place (Recip(&x, &x) is used by the X25519 code)
	Recip(&z, &z)
	vAssert(vGetZ(&z).Eq(vZc(vP).Sub(vZi(2))), "Recip in place = z^(p-2)")
}

func vh_C10_PowTwo252m3_exponent() {
	vExpCuts()
	var z, out Bignum25519
	vPut(&z, vZi(1))
	PowTwo252m3(&out, &z)
	vAssert(vGetZ(&out).Eq(vZc(vP).Sub(vZi(5)).Div(vZi(8))), "PowTwo252m3(z) = z^((p-5)/8)")
	PowTwo252m3(&z, &z)
	vAssert(vGetZ(&z).Eq(vZc(vP).Sub(vZi(5)).Div(vZi(8))), "PowTwo252m3 in place = z^((p-5)/8)")
}

// SquareTimes with a symbolic-free loop: n iterations of the proven step keep the state in class
// (vh_C18_SquareTimes_step: reduced output from any in-class input), so the chain lengths 1,2,5,10,20,50,100
// used by the helpers are covered by induction on the step.
