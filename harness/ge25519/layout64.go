// +build amd64 force64bit
// +build !force32bit

package ge25519

import "github.com/oasisprotocol/ed25519/internal/curve25519"

func vSetS(p *curve25519.Bignum25519, s int) { p[1] = uint64(s) }
func vGetS(p *curve25519.Bignum25519) int    { return int(p[1]) }
func vLimbOff(i int) int                     { return 51 * i }
func vLimbBits(i int) int                    { return 51 }

const vNLimbs = 5

// Sub does not carry on this layout: out_i <= a_i + 2p_i
func vSubOutClass(a vClass) vClass { return vClsAdd(a, vUniform(vSSubOut)) }

// Mul is proved in C18 for every operand pair with limbs <= 2^54
func vMulPairOK(a, b vClass) bool { return vClsLe(a, vSMulIn) && vClsLe(b, vSMulIn) }

// class limits of the field layer (units of 1/64 of the nominal limb size); the same numbers are the
// preconditions under which C18 proves each field function (harness/curve25519/layout64.go)
const (
	vSAddIn       = 512
	vSSubA        = 512
	vSSubB        = 127
	vSSubBAfter   = 255
	vSMulIn       = 512
	vSSquareIn    = 512
	vSContract    = 256
	vSReduced     = 65
	vSSubOut      = 128
	vSSubAfterOut = 256
	vAddAfterCarries = false
)
