package ge25519

import "github.com/oasisprotocol/ed25519/internal/curve25519"

// ---------------------------------------------------------------------------
// field-abstract contracts of the byte-level field functions and of the two long exponentiations

var vFreshN int

func vFreshName(prefix string) string {
	vFreshN++
	return prefix + string(rune('a'+vFreshN/26)) + string(rune('a'+vFreshN%26))
}

// Expand: value = low 255 bits of the little-endian integer, limbs below 2^bits (C18 vh_C18_Expand)
// (the value is named by a fresh integer y with y == LE(in) mod 2^255, so that the algebra downstream is in
// one variable instead of 32 byte variables)
func vc_feExpand(out *curve25519.Bignum25519, in []byte) {
	_ = in[31]
	y := vZfresh(vFreshName("expand_"))
	vAssume(y.Eq(vZle(in[:32]).Mod(vZi(1).Shl(255))))
	vFEset(out, y, vUniform(64))
	vLastExpand = y
}

var vLastExpand vZ

// Contract: the 32 output bytes are the unique canonical value below p (C18 vh_C18_Contract)
func vc_feContract(out []byte, in *curve25519.Bignum25519) {
	vAssert(vClsLe(vFEc(in), vSContract), "Contract: operand in class")
	_ = out[31]
	copy(out[:32], vZbytes(vFE(in).Mod(vZc(vP)), 32))
}

// PowTwo252m3 / Recip: the result is some field element w (a fresh integer); what the chains compute is
// established by exponent tracking (vh_C10_PowTwo252m3_exponent, vh_C10_Recip_exponent in package curve25519):
// w == z^((p-5)/8) resp. z^(p-2).  For Recip the consequence z*w == 1 (z != 0), w == 0 (z == 0) is assumed here
// (Fermat: trusted).
func vc_fePow252(out, z *curve25519.Bignum25519) {
	vAssert(vMulPairOK(vFEc(z), vFEc(z)), "PowTwo252m3: operand in the Mul/Square class")
	vFEset(out, vZfresh(vFreshName("pow252_")), vUniform(vSReduced))
}

// vRecipOfZero selects which case of Recip the harness explores: z == 0 (result 0) or z != 0 (z w == 1)
var vRecipOfZero bool

func vc_feRecip(out, z *curve25519.Bignum25519) {
	vAssert(vMulPairOK(vFEc(z), vFEc(z)), "Recip: operand in the Mul/Square class")
	w := vZfresh(vFreshName("recip_"))
	zv := vFE(z)
	if vRecipOfZero {
		vAssume(vCong(zv, vZi(0)))
		vAssume(vCong(w, vZi(0)))
	} else {
		vAssume(!vCong(zv, vZi(0)))
		if zv.IsSym() {
			vInversePair(zv, w, vZc(vP)) // z w == 1 (mod p), usable as a rewriting rule under "mod p"
		} else {
			vAssume(vCong(zv.Mul(w), vZi(1)))
		}
	}
	vFEset(out, w, vUniform(vSReduced))
}

func vCutFieldBytes() {
	vCutField()
	vReplace(curve25519.Expand, vc_feExpand)
	vReplace(curve25519.Contract, vc_feContract)
	vReplace(curve25519.PowTwo252m3, vc_fePow252)
	vReplace(curve25519.Recip, vc_feRecip)
}

// ---------------------------------------------------------------------------

// C10: UnpackNegativeVartime.  accept => genuine root of (y^2-1)/(d y^2+1) with the parity opposite to bit 255
// (either parity when x == 0), y from the low 255 bits, Z = 1, T = XY; reject => the candidate passes neither
// root test.
// the multiplication by sqrt(-1) happens on exactly one decoder path: after the second root test.  At that point
// the decoder's local t holds x^2 den + num, and the path was taken because the canonical bytes of t compared
// equal to zero; the comparison must amount to t == 0 (a truncated or partial comparison accepts non-roots)
func vc_feMulDecoder(out, a, b *curve25519.Bignum25519) {
	if b == &sqrtNeg1 {
		vSecondRootTaken = true
		t := vCallerLocal("t").(*curve25519.Bignum25519)
		// stated for an arbitrary field value in place of x^2 den + num (generalisation): what matters is the
		// comparison the path went through, not how the value was computed
		saved := vGetZ(t)
		vGeneralize(t, 1, "gen_t")
		vAssert(vCong(vFE(t), vZi(0)), "the second root is taken only when x^2 den + num == 0")
		vGeneralizeOff()
		vPut(t, saved)
	}
	vc_feMul(out, a, b)
}

var vSecondRootTaken bool

// the serialisation for the parity step is reached either through the second-root block or directly after the
// first root test; in the latter case that test must amount to x^2 den - num == 0
func vc_feContractDecoder(out []byte, in *curve25519.Bignum25519) {
	root := vCallerLocal("root").(*curve25519.Bignum25519)
	t := vCallerLocal("t").(*curve25519.Bignum25519)
	if in != root && in != t && !vSecondRootTaken {
		saved := vGetZ(root)
		vGeneralize(root, 1, "gen_root")
		vAssert(vCong(vFE(root), vZi(0)), "the first root is taken only when x^2 den - num == 0")
		vGeneralizeOff()
		vPut(root, saved)
	}
	vc_feContract(out, in)
}

func vUnpackCase(negative bool) {
	vCutFieldBytes()
	vSecondRootTaken = false
	vReplace(curve25519.Mul, vc_feMulDecoder)
	vReplace(curve25519.Contract, vc_feContractDecoder)
	vNoMerge(true) // each decoder path (first root, second root, reject, both parities) is explored on its own
	p := vBytes("enc", 32)
	var r Ge25519
	var ok bool
	if negative {
		ok = UnpackNegativeVartime(&r, p)
	} else {
		ok = UnpackVartime(&r, p)
	}
	// (no solver reachability witness here: exhibiting a square root is beyond the solvers; the accept and reject
	// paths are exercised concretely by the self-test T00 and by vh_C09_api_*)
	P := vZc(vP)
	d := vZc(vD)
	y := vLastExpand // == LE(p) mod 2^255 (assumption installed by the Expand contract)
	vAssert(y.Eq(vZle(p).Mod(vZi(1).Shl(255))) || !negative, "the decoder expands exactly the supplied bytes")
	num := y.Mul(y).Sub(vZi(1))
	den := d.Mul(y).Mul(y).Add(vZi(1))
	bit := vZi(int(p[31] >> 7))
	if ok {
		x := vFE(&r.x)
		vAssert(vCong(den.Mul(x).Mul(x), num), "accepted: x^2 (d y^2 + 1) == y^2 - 1")
		vAssert(vCong(vFE(&r.y), y) && vCong(vFE(&r.z), vZi(1)) && vCong(vFE(&r.t), x.Mul(vFE(&r.y))), "accepted: Y == y, Z == 1, T == X Y")
		par := x.Mod(P).Mod(vZi(2))
		if negative {
			vAssert(vCong(x, vZi(0)) || par.Eq(vZi(1).Sub(bit)), "UnpackNegativeVartime: parity of x is the complement of bit 255 (any when x == 0)")
		} else {
			vAssert(vCong(x, vZi(0)) || par.Eq(bit), "UnpackVartime: parity of x is bit 255 (any when x == 0)")
		}
		vAssert(vClsLe(vFEc(&r.x), vSReduced) && vClsLe(vFEc(&r.y), vSReduced) && vClsLe(vFEc(&r.t), vSReduced), "accepted: coordinates reduced")
	}
	vAssert(vSameBytes(p, "enc"), "the input slice is not modified (its cells still hold the input symbols)")
}

func vSameBytes(b []byte, name string) bool { return !vStoresToCaller() }

func vh_C10_UnpackNegativeVartime() { vUnpackCase(true) }
func vh_C10_UnpackVartime()         { vUnpackCase(false) }

// C10: Pack writes the canonical encoding of the affine point (x, y) = (X/Z, Y/Z), Z != 0: bits 0..254 = y fully
// reduced, bit 255 = parity of the fully reduced x
func vh_C10_Pack() {
	vCutFieldBytes()
	vRecipOfZero = false
	p, a := vInPoint("p")
	out := make([]byte, 32)
	Pack(out, &p)
	vReach("Pack returned")
	P := vZc(vP)
	v := vZle(out)
	yv := v.Mod(vZi(1).Shl(255))
	sign := v.Div(vZi(1).Shl(255))
	vAssert(yv.Lt(P), "Pack: y field is canonical (< p)")
	vAssert(yv.Eq(a.y.Mod(P)), "Pack: bits 0..254 = y mod p")
	vAssert(sign.Eq(a.x.Mod(P).Mod(vZi(2))), "Pack: bit 255 = parity of x mod p")
}
