package ge25519

import (
	"github.com/oasisprotocol/ed25519/internal/curve25519"
	"github.com/oasisprotocol/ed25519/internal/modm"
)

// ---------------------------------------------------------------------------
// C16, algorithm level (D_GE): ScalarmultBaseNiels and DoubleScalarmultVartime executed with the group
// operations replaced by their contracts over integer multiples.  A point is a P + b B for one symbolic
// generator P and the base point B; (a, b) live in cells 2 and 3 of the X coordinate, the representation
// form (1 = projective X:Y:Z, 2 = extended with T) in cell 3 of the Y coordinate.  Coordinates written by a
// contract carry marker values, so a coordinate later overwritten by field-level code is recognised and the
// point is re-examined at field level (that is how the first window of ScalarmultBaseNiels is checked).
//
// What the contracts rest on (each discharged on the real code elsewhere):
//   doubleP1p1 / p1p1ToFull / p1p1ToPartial / nielsAdd2 / pnielsAdd / fullToPniels / both vartime mixed
//   additions: c16_grouplaw.go;  selector = table row for every digit: c08_selector.go;  table rows = multiples
//   of B: c16_tables.go;  recodings produce digit strings with the assumed ranges and value: harness/modm/c19.go.

var vMarkX, vMarkY, vMarkZ, vMarkT vZ

func vMarks() {
	vMarkX, vMarkY, vMarkZ, vMarkT = vZfresh("cut_X"), vZfresh("cut_Y"), vZfresh("cut_Z"), vZfresh("cut_T")
}

type vGid struct{ a, b vZ }

func vgPut(x, y, z, t *curve25519.Bignum25519, id vGid, form int) {
	vFEset(x, vMarkX, vUniform(vSReduced))
	vFEset(y, vMarkY, vUniform(vSReduced))
	vFEset(z, vMarkZ, vUniform(vSReduced))
	if form == 2 {
		vFEset(t, vMarkT, vUniform(vSReduced))
	}
	vPutAt(x, 2, id.a)
	vPutAt(x, 3, id.b)
	vPutAt(y, 3, vZi(form))
}

// marked: all coordinates still hold the values a contract wrote (form 2 additionally needs T)
func vgMarked(x, y, z, t *curve25519.Bignum25519, needT bool) bool {
	if !vFEisAbs(x) || !vFEisAbs(y) || !vFEisAbs(z) {
		return false
	}
	if !vZsame(vGetZ(x), vMarkX) || !vZsame(vGetZ(y), vMarkY) || !vZsame(vGetZ(z), vMarkZ) {
		return false
	}
	if !vIsAbstractZ(&y[3]) {
		return false
	}
	if needT {
		if !vFEisAbs(t) || !vZsame(vGetZ(t), vMarkT) {
			return false
		}
		return vZsame(vGetZAt(y, 3), vZi(2))
	}
	return true
}

func vgId(x *curve25519.Bignum25519) vGid { return vGid{vGetZAt(x, 2), vGetZAt(x, 3)} }

func (g vGid) add(h vGid) vGid { return vGid{g.a.Add(h.a), g.b.Add(h.b)} }
func (g vGid) sub(h vGid) vGid { return vGid{g.a.Sub(h.a), g.b.Sub(h.b)} }
func (g vGid) dbl() vGid       { return vGid{g.a.Mul(vZi(2)), g.b.Mul(vZi(2))} }

// the affine point most recently handed out by the selector contract (first window of the fixed-base routine)
var vSelXs, vSelYs, vSelIdB [64]vZ
var vSelCount int

// a Ge25519 operand of a group-level contract: either marked (then its id is read), or the concrete neutral
// element, or field-level values that must represent the point last returned by the selector
func vgOperand(p *Ge25519, needT bool, what string) vGid {
	if vgMarked(&p.x, &p.y, &p.z, &p.t, needT) {
		return vgId(&p.x)
	}
	if !vFEisAbs(&p.x) && !vFEisAbs(&p.y) && !vFEisAbs(&p.z) && !vFEisAbs(&p.t) {
		X, Y, Z, T := vFull(p)
		vAssert(vCong(X, vZi(0)) && vCong(Y, Z) && vCong(T, vZi(0)) && !vCong(Z, vZi(0)), what+": a concrete operand is the neutral element (0 : z : z : 0)")
		vAssert(vClsLe(vFEc(&p.x), vSReduced) && vClsLe(vFEc(&p.y), vSReduced) && vClsLe(vFEc(&p.z), vSReduced) && vClsLe(vFEc(&p.t), vSReduced), what+": concrete operand limbs reduced")
		return vGid{vZi(0), vZi(0)}
	}
	// field-level values: must be an extended representation (with Z == 2) of one of the affine points the
	// selector has handed out so far; the earliest match decides the multiple
	X, Y, Z, T := vFull(p)
	vAssert(vCong(Z, vZi(2)), what+": field-level operand has Z == 2")
	matches, idb := vZi(0), vZi(0)
	for k := vSelCount - 1; k >= 0; k-- {
		mx, my := vCong(X, vSelXs[k].Mul(Z)), vCong(Y, vSelYs[k].Mul(Z))
		both := vZite(mx, vZite(my, vZi(1), vZi(0)), vZi(0))
		idb = vZite(both.Eq(vZi(1)), vSelIdB[k], idb)
		matches = matches.Add(both)
	}
	vAssert(vZi(0).Lt(matches), what+": field-level operand represents a selected table point")
	vAssert(vCong(T.Mul(Z), X.Mul(Y)), what+": field-level operand has T Z == X Y")
	vAssert(vClsLe(vFEc(&p.x), vSReduced) && vClsLe(vFEc(&p.y), vSReduced) && vClsLe(vFEc(&p.z), vSReduced) && vClsLe(vFEc(&p.t), 2*vSReduced), what+": field-level operand within the classes vh_C16_nielsAdd2_wide proves")
	return vGid{vZi(0), idb}
}

// ---- group-level contracts -------------------------------------------------

func vc_gDoubleP1p1(r *ge25519p1p1, p *Ge25519) {
	vNoMerge(false)
	id := vgOperand(p, false, "doubleP1p1")
	vgPut(&r.x, &r.y, &r.z, &r.t, id.dbl(), 2)
}

func vP1p1Id(p *ge25519p1p1, what string) vGid {
	vAssert(vgMarked(&p.x, &p.y, &p.z, &p.t, true), what+": operand was produced by a group operation")
	return vgId(&p.x)
}

func vc_gP1p1ToFull(r *Ge25519, p *ge25519p1p1) {
	vgPut(&r.x, &r.y, &r.z, &r.t, vP1p1Id(p, "p1p1ToFull"), 2)
}

func vc_gP1p1ToPartial(r *Ge25519, p *ge25519p1p1) {
	id := vP1p1Id(p, "p1p1ToPartial")
	// T is not written: whatever r.t held is stale from now on
	vgPut(&r.x, &r.y, &r.z, &r.t, id, 1)
	if vFEisAbs(&r.t) {
		vFEset(&r.t, vZfresh("stale_T"), vUniform(vSReduced))
	}
}

func vNielsId(q *ge25519niels, what string) vGid {
	ys, xa, td := vFE(&q.ysubx), vFE(&q.xaddy), vFE(&q.t2d)
	vAssert(vCong(td.Mul(vZi(2)), vZc(vD).Mul(xa.Mul(xa).Sub(ys.Mul(ys)))), what+": precomputed operand is consistent, 2 t2d == d (xaddy^2 - ysubx^2)")
	vAssert(vClsLe(vFEc(&q.ysubx), vSReduced) && vClsLe(vFEc(&q.xaddy), vSReduced) && vClsLe(vFEc(&q.t2d), 2*vSReduced), what+": precomputed operand within the classes the mixed addition is proved for")
	vAssert(vIsAbstractZ(&q.ysubx[2]), what+": precomputed operand comes from the selector")
	return vgId(&q.ysubx)
}

func vc_gNielsAdd2(r *Ge25519, q *ge25519niels) {
	idq := vNielsId(q, "nielsAdd2")
	idr := vgOperand(r, true, "nielsAdd2")
	vgPut(&r.x, &r.y, &r.z, &r.t, idr.add(idq), 2)
}

func vc_gFullToPniels(r *ge25519pniels, p *Ge25519) {
	id := vgOperand(p, true, "fullToPniels")
	vgPut(&r.ysubx, &r.xaddy, &r.z, &r.t2d, id, 2)
}

func vPnielsId(q *ge25519pniels, what string) vGid {
	vAssert(vgMarked(&q.ysubx, &q.xaddy, &q.z, &q.t2d, true), what+": projective precomputed operand was produced by fullToPniels / pnielsAdd")
	return vgId(&q.ysubx)
}

func vc_gPnielsAdd(r *ge25519pniels, p *Ge25519, q *ge25519pniels) {
	// the leading-zero skip loop that follows the precomputation is explored path by path (its exit index then
	// is concrete on each path); merging resumes at the first doubling of the main loop
	vNoMerge(true)
	id := vgOperand(p, true, "pnielsAdd").add(vPnielsId(q, "pnielsAdd"))
	vgPut(&r.ysubx, &r.xaddy, &r.z, &r.t2d, id, 2)
}

func vc_gPnielsAddVartime(r *ge25519p1p1, p *Ge25519, q *ge25519pniels, signbit uint8) {
	vAssert(signbit <= 1, "pnielsAddP1P1Vartime: sign is 0 or 1")
	idp := vgOperand(p, true, "pnielsAddP1P1Vartime")
	idq := vPnielsId(q, "pnielsAddP1P1Vartime")
	plus, minus := idp.add(idq), idp.sub(idq)
	vgPut(&r.x, &r.y, &r.z, &r.t, vGid{vZite(signbit == 0, plus.a, minus.a), vZite(signbit == 0, plus.b, minus.b)}, 2)
}

// the second operand of the vartime mixed addition is an entry of the constant table nielsSlidingMultiples:
// entry k is [2k + 1] B (c16_tables.go)
func vc_gNielsAddVartime(r *ge25519p1p1, p *Ge25519, q *ge25519niels, signbit uint8) {
	vAssert(signbit <= 1, "nielsAdd2P1p1Vartime: sign is 0 or 1")
	idp := vgOperand(p, true, "nielsAdd2P1p1Vartime")
	k := vZi(-1)
	for i := range nielsSlidingMultiples {
		k = vZite(q == &nielsSlidingMultiples[i], vZi(2*i+1), k)
	}
	vAssert(vZi(0).Lt(k), "nielsAdd2P1p1Vartime: operand is an entry of nielsSlidingMultiples")
	vgPut(&r.x, &r.y, &r.z, &r.t, vGid{idp.a, vZite(signbit == 0, idp.b.Add(k), idp.b.Sub(k))}, 2)
}

func vItoa(n int) string {
	if n == 0 {
		return "0"
	}
	s := ""
	for n > 0 {
		s = string(rune('0'+n%10)) + s
		n /= 10
	}
	return s
}

// selector contract: for a digit b in [-8, 8] the result is the affine precomputed form (y - x, y + x, c x y) of
// the point [b 256^pos] B, c = 2 for position 0 and 2 d otherwise (c08_selector.go: selector = signed table row;
// c16_tables.go: rows = multiples); limbs within the classes the selector harness proves
func vc_gChoose(t *ge25519niels, table *[256][96]byte, pos int, b int8) {
	vAssert(table == &NielsBaseMultiples, "selector: called with the base point table")
	vAssert(pos >= 0 && pos < 32, "selector: position within the table")
	vAssert(b >= -8, "selector: digit >= -8")
	vAssert(b <= 8, "selector: digit <= 8")
	n := vItoa(vSelCount)
	x, y := vZfresh("sel_x"+n), vZfresh("sel_y"+n)
	c := vZc(vD).Mul(vZi(2))
	if pos == 0 {
		c = vZi(2)
	}
	vFEset(&t.ysubx, y.Sub(x), vUniform(vSReduced))
	vFEset(&t.xaddy, y.Add(x), vUniform(vSReduced))
	vFEset(&t.t2d, c.Mul(x).Mul(y), vUniform(2*vSReduced))
	id := vGid{vZi(0), vZi(int(b)).Mul(vZi(1).Shl(8 * pos))}
	vPutAt(&t.ysubx, 2, id.a)
	vPutAt(&t.ysubx, 3, id.b)
	vSelXs[vSelCount], vSelYs[vSelCount], vSelIdB[vSelCount] = x, y, id.b
	vSelCount++
}

var vDigits [256]vZ
var vDigits2 [256]vZ

func vc_gWindow4(r *[64]int8, in *modm.Bignum256) {
	for i := range r {
		b := vI8("b" + vItoa(i))
		vAssume(b >= -8)
		vAssume(b <= 8)
		r[i] = b
		vDigits[i] = vZi(int(b))
	}
}

func vCutGroup() {
	vMarks()
	vCutField()
	vReplace(doubleP1p1, vc_gDoubleP1p1)
	vReplace(p1p1ToFull, vc_gP1p1ToFull)
	vReplace(p1p1ToPartial, vc_gP1p1ToPartial)
	vReplace(nielsAdd2, vc_gNielsAdd2)
	vReplace(fullToPniels, vc_gFullToPniels)
	vReplace(pnielsAdd, vc_gPnielsAdd)
	vReplace(pnielsAddP1P1Vartime, vc_gPnielsAddVartime)
	vReplace(nielsAdd2P1p1Vartime, vc_gNielsAddVartime)
	vReplace(scalarmultBaseChooseNiels, vc_gChoose)
}

// ScalarmultBaseNiels(s) = [sum b_i 16^i] B for every digit string b in [-8, 8]^64 (which ContractWindow4
// produces with sum b_i 16^i = s: vh_C19_ContractWindow4_*), the result is a full extended point, the digit
// buffer is wiped.
func vh_C16_ScalarmultBaseNiels() {
	vCutGroup()
	vReplace(modm.ContractWindow4, vc_gWindow4)
	vNote("fixed-base algorithm: all 64 radix-16 digits symbolic in [-8, 8]; group operations by contract (D_GE), first window at field level (D_FE)")
	var s modm.Bignum256
	var r Ge25519
	ScalarmultBaseNiels(&r, &NielsBaseMultiples, &s)
	vReach("ScalarmultBaseNiels returned")
	want := vZi(0)
	for i := 0; i < 64; i++ {
		want = want.Add(vDigits[i].Shl(4 * i))
	}
	vAssert(vgMarked(&r.x, &r.y, &r.z, &r.t, true), "result is a full extended point produced by the group operations")
	id := vgId(&r.x)
	vAssert(id.a.Eq(vZi(0)), "result has no component outside <B>")
	vAssert(id.b.Eq(want), "ScalarmultBaseNiels = [sum b_i 16^i] B")
	vAssert(vSelCount == 64, "every digit is used exactly once (64 selections)")
}

// nielsAdd2 with the operand classes that occur in ScalarmultBaseNiels: T of the accumulator and t2d of the
// selected entry up to twice the reduced size (first window copies t2d; the assembly selector leaves the
// negated t2d unreduced)
func vh_C16_nielsAdd2_wide() {
	vCutField()
	p, a := vInPoint("p")
	q, b := vInNiels("q")
	vFEset(&p.t, vFE(&p.t), vUniform(2*vSReduced))
	vFEset(&q.t2d, vFE(&q.t2d), vUniform(2*vSReduced))
	nielsAdd2(&p, &q)
	vReach("nielsAdd2 returned")
	X, Y, Z, _ := vFull(&p)
	vIsSum(X, Y, Z, a, b, 1, "nielsAdd2 (wide T, t2d)")
	vIsExtended(&p, "nielsAdd2 (wide T, t2d)")
}

// ---- double-base -------------------------------------------------------------

var vSlideTop, vSlideLow int

// sliding-window recoding contract: digits are zero or odd, |d| < 2^(w-1); positions above vSlideTop and below
// vSlideLow are zero in this case (bounded placement)
func vc_gSliding(r *[256]int8, s *modm.Bignum256, windowSize int) {
	m := int8(1<<uint(windowSize-1) - 1)
	which := 0
	if windowSize == s2SWindowSize {
		which = 1
	}
	for i := range r {
		r[i] = 0
		d := vZi(0)
		if i <= vSlideTop && i >= vSlideLow {
			v := vI8("d" + vItoa(which) + "_" + vItoa(i))
			vAssume(v >= -m)
			vAssume(v <= m)
			isZero, isOdd := v == 0, v&1 == 1
			vAssume(isZero != isOdd) // zero or odd (the two exclude each other)
			r[i] = v
			d = vZi(int(v))
		}
		if which == 0 {
			vDigits[i] = d
		} else {
			vDigits2[i] = d
		}
	}
}

// DoubleScalarmultVartime(P, s1, s2) = [sum d1_i 2^i] P + [sum d2_i 2^i] B for sliding-window digit strings
// whose non-zero digits lie in positions low..top
func vh_C16_DoubleScalarmultVartime() {
	tops := [...]int{255, 255, 131, 64, 1, 0, 252}
	lows := [...]int{254, 253, 130, 63, 0, 0, 252}
	c := vCase(0, len(tops)-1)
	vSlideTop, vSlideLow = tops[c], lows[c]
	if vTier() == 1 {
		vSlideLow -= 2
		if vSlideLow < 0 {
			vSlideLow = 0
		}
	}
	vCutGroup()
	vReplace(modm.ContractSlidingWindow, vc_gSliding)
	vNote("double-base algorithm: both sliding-window digit strings symbolic at positions low..top (255..254, 255..253, 131..130, 64..63, 1..0, 0, 252; thorough: two more positions each), zero elsewhere; precomputation and main loop by contract (D_GE)")
	var s1, s2 modm.Bignum256
	var p, r Ge25519
	vgPut(&p.x, &p.y, &p.z, &p.t, vGid{vZi(1), vZi(0)}, 2)
	DoubleScalarmultVartime(&r, &p, &s1, &s2)
	vReach("DoubleScalarmultVartime returned")
	wa, wb := vZi(0), vZi(0)
	for i := 0; i < 256; i++ {
		wa = wa.Add(vDigits[i].Shl(i))
		wb = wb.Add(vDigits2[i].Shl(i))
	}
	id := vGid{vZi(0), vZi(0)}
	if vgMarked(&r.x, &r.y, &r.z, &r.t, false) {
		id = vgId(&r.x)
	} else {
		id = vgOperand(&r, false, "result")
	}
	vAssert(id.a.Eq(wa), "DoubleScalarmultVartime: coefficient of P = sum d1_i 2^i")
	vAssert(id.b.Eq(wb), "DoubleScalarmultVartime: coefficient of B = sum d2_i 2^i")
}

// all digits zero: the loop is skipped entirely and the result is the neutral element written limb by limb
func vh_C16_DoubleScalarmultVartime_zero() {
	vSlideTop, vSlideLow = -1, 0
	vCutGroup()
	vReplace(modm.ContractSlidingWindow, vc_gSliding)
	var s1, s2 modm.Bignum256
	var p, r Ge25519
	vgPut(&p.x, &p.y, &p.z, &p.t, vGid{vZi(1), vZi(0)}, 2)
	DoubleScalarmultVartime(&r, &p, &s1, &s2)
	X, Y, Z, _ := vFull(&r)
	vAssert(!vFEisAbs(&r.x) && vCong(X, vZi(0)) && vCong(Y, Z) && vCong(Z, vZi(1)), "zero scalars: the neutral element (0 : 1 : 1)")
}

// class flow of the projective precomputed table of DoubleScalarmultVartime at field level: fullToPniels and
// pnielsAdd outputs are accepted (operand classes) by pnielsAdd and by the vartime addition, and the chain
// P, 3P = 2P + P keeps the group law
func vh_C16_pniels_chain() {
	vCutField()
	sign := vCase(0, 1)
	p, a := vInPoint("p")
	d, b := vInPoint("d")
	acc, _ := vInPoint("acc")
	var q0, q1, q2 ge25519pniels
	fullToPniels(&q0, &p)
	pnielsAdd(&q1, &d, &q0)
	pnielsAdd(&q2, &d, &q1)
	var t ge25519p1p1
	pnielsAddP1P1Vartime(&t, &acc, &q0, uint8(sign))
	pnielsAddP1P1Vartime(&t, &acc, &q1, uint8(sign))
	pnielsAddP1P1Vartime(&t, &acc, &q2, uint8(sign))
	vReach("chain executed with every field call inside its proved class")
	ys, xa, Z := vFE(&q1.ysubx), vFE(&q1.xaddy), vFE(&q1.z)
	vIsSum(xa.Sub(ys), xa.Add(ys), Z.Mul(vZi(2)), b, a, 1, "pnielsAdd(d, fullToPniels(p))")
}

// ---------------------------------------------------------------------------
// DoubleScalarmultVartime, inductive step: ONE iteration of the main loop started at its header from an ARBITRARY
// accumulator a P + b B (projective form, as every iteration leaves it), with the precomputed table
// pre1[k] = [2k+1] P (established by vh_C16_DoubleScalarmultVartime: the precomputation runs before the loop) and
// arbitrary sliding-window digits at position i: afterwards the accumulator is 2 (a P + b B) + d1 P + d2 B in
// projective form and i has decreased by one.  With the base case (accumulator = neutral element at the first
// non-zero position: the windows harness above) this covers digit strings of any shape by induction.
func vh_C16_DoubleScalarmultVartime_step() {
	i := [...]int{0, 1, 77, 255}[vCase(0, 3)]
	vCutGroup()
	vNote("double-base main loop, one iteration from an arbitrary accumulator and arbitrary digits at position i in {0, 1, 77, 255}")
	var slide1, slide2 [256]int8
	d1, d2 := vI8("d1"), vI8("d2")
	z1, o1 := d1 == 0, d1&1 == 1
	z2, o2 := d2 == 0, d2&1 == 1
	vAssume(z1 != o1)
	vAssume(z2 != o2)
	vAssume(d1 >= -15)
	vAssume(d1 <= 15)
	vAssume(d2 >= -63)
	vAssume(d2 <= 63)
	slide1[i], slide2[i] = d1, d2
	var pre1 [s1TableSize]ge25519pniels
	for k := 0; k < s1TableSize; k++ {
		vgPut(&pre1[k].ysubx, &pre1[k].xaddy, &pre1[k].z, &pre1[k].t2d, vGid{vZi(2*k + 1), vZi(0)}, 2)
	}
	a, b := vZfresh("acc_a"), vZfresh("acc_b")
	var r, p1 Ge25519
	vgPut(&r.x, &r.y, &r.z, &r.t, vGid{a, b}, 1)
	vFEset(&r.t, vZfresh("stale_T"), vUniform(vSReduced))
	var t ge25519p1p1
	var s1, s2 modm.Bignum256
	vReach("an arbitrary accumulator")
	cont := vLoopStep(DoubleScalarmultVartime, 4, &r, &p1, &s1, &s2, "@loop", 2, "i", i, "slide1", &slide1, "slide2", &slide2, "pre1", &pre1, "t", &t)
	vAssert(cont == 1, "the iteration returns to the loop header")
	if cont != 1 {
		return
	}
	vAssert(vLoopOutInt("i") == i-1, "the position decreases by one")
	vAssert(vgMarked(&r.x, &r.y, &r.z, &r.t, false), "the accumulator is a projective point produced by the group operations")
	id := vgId(&r.x)
	vAssert(id.a.Eq(a.Mul(vZi(2)).Add(vZi(int(d1)))), "coefficient of P: 2 a + d1")
	vAssert(id.b.Eq(b.Mul(vZi(2)).Add(vZi(int(d2)))), "coefficient of B: 2 b + d2")
}

// C15 / C13: the variable-time mixed additions only READ their precomputed operand.  The base-point operand is an
// entry of the package-level table nielsSlidingMultiples, shared by all goroutines: any store to it (even one
// that is undone before returning) is logged as a store to a package-level object and fails the check.
func vh_C15_table_operands_read_only() {
	vCutField()
	k := [...]int{0, 5, 31}[vCase(0, 2)]
	sign := uint8(vCase(0, 1))
	p, _ := vInPoint("p")
	var t ge25519p1p1
	nielsAdd2P1p1Vartime(&t, &p, &nielsSlidingMultiples[k], sign)
	var r Ge25519
	nielsAdd2(&r, &nielsSlidingMultiples[k])
	vReach("mixed additions with a table operand executed")
	vAssert(!vStoresToCaller(), "no store to the table entry")
}
