package ge25519

import "github.com/oasisprotocol/ed25519/internal/curve25519"

// ---------------------------------------------------------------------------
// C16, table constants.  The precomputed tables are related to the base point by running the REAL group-law
// code (whose formulas are proved in c16_grouplaw.go) on the concrete table limbs; the executor folds every
// field operation to constants, so each obligation below is a closed term decided by the term simplifier.
//
//   Basepoint            : y = 4/5, x even, T Z = X Y, on the curve
//   NielsBaseMultiples   : row 8 pos + k - 1 is the affine precomputed form of [k 256^pos] B, k = 1..8,
//                          third component 2 d x y for every position (the pos = 0 fix-up in
//                          ScalarmultBaseNiels multiplies by d, so row 0.. hold 2 x y: checked as found)
//   nielsSlidingMultiples: entry k is the affine precomputed form of [2k + 1] B, third component 2 d x y
//
// comparison is cross-multiplied with the running projective point (X : Y : Z : T):
//   ysubx Z == Y - X,   xaddy Z == Y + X,   t2d Z == c T      (c = 2 d, or 2 for position 0)

func vRowMatches(ys, xa, td *curve25519.Bignum25519, q *Ge25519, pos0 bool) bool {
	X, Y, Z, T := vFull(q)
	c := vZc(vD).Mul(vZi(2))
	if pos0 {
		c = vZi(2)
	}
	return vCong(vFE(ys).Mul(Z), Y.Sub(X)) && vCong(vFE(xa).Mul(Z), Y.Add(X)) && vCong(vFE(td).Mul(Z), c.Mul(T))
}

func vh_C16_basepoint_constant() {
	P := vZc(vP)
	X, Y, Z, T := vFull(&Basepoint)
	vAssert(vCong(T.Mul(Z), X.Mul(Y)), "Basepoint: T Z == X Y")
	vAssert(vCong(Y.Mul(vZi(5)), Z.Mul(vZi(4))), "Basepoint: y == 4/5")
	// on the curve: -X^2 Z^2 + Y^2 Z^2 == Z^4 + d X^2 Y^2
	vAssert(vCong(Y.Mul(Y).Sub(X.Mul(X)).Mul(Z).Mul(Z), Z.Mul(Z).Mul(Z).Mul(Z).Add(vZc(vD).Mul(X).Mul(X).Mul(Y).Mul(Y))), "Basepoint: on the curve")
	// Z = 1 in the table, x even (the RFC 8032 base point is the root with even x)
	vAssert(Z.Mod(P).Eq(vZi(1)), "Basepoint: Z == 1")
	vAssert(X.Mod(P).Mod(vZi(2)).Eq(vZi(0)), "Basepoint: x is even")
	var enc [32]byte
	Pack(enc[:], &Basepoint)
	ok := enc[0] == 0x58
	for i := 1; i < 32; i++ {
		ok = ok && enc[i] == 0x66
	}
	vAssert(ok, "Pack(Basepoint) == 5866...66")
}

func vh_C16_NielsBaseMultiples_table() {
	vNote("all 256 rows of NielsBaseMultiples against [k 256^pos] B computed with the real Add / Double from Basepoint (concrete execution)")
	base := Basepoint
	for pos := 0; pos < 32; pos++ {
		q := base
		for k := 1; k <= 8; k++ {
			if k > 1 {
				Add(&q, &q, &base)
			}
			row := &NielsBaseMultiples[pos*8+k-1]
			var ys, xa, td curve25519.Bignum25519
			curve25519.Expand(&ys, row[0:32])
			curve25519.Expand(&xa, row[32:64])
			curve25519.Expand(&td, row[64:96])
			vAssert(vRowMatches(&ys, &xa, &td, &q, pos == 0), "NielsBaseMultiples[8 pos + k - 1] == niels([k 256^pos] B)")
			// the packed rows are canonical (bit 255 clear and value < p), so Expand loses nothing
			vAssert(row[31]&0x80 == 0 && row[63]&0x80 == 0 && row[95]&0x80 == 0, "row components have bit 255 clear")
		}
		for j := 0; j < 8; j++ {
			Double(&base, &base)
		}
	}
	vReach("table walked")
}

func vh_C16_nielsSlidingMultiples_table() {
	vNote("all 32 entries of nielsSlidingMultiples against [2k + 1] B computed with the real Add / Double (concrete execution)")
	var b2 Ge25519
	Double(&b2, &Basepoint)
	q := Basepoint
	for k := 0; k < 32; k++ {
		if k > 0 {
			Add(&q, &q, &b2)
		}
		e := &nielsSlidingMultiples[k]
		vAssert(vRowMatches(&e.ysubx, &e.xaddy, &e.t2d, &q, false), "nielsSlidingMultiples[k] == niels([2k + 1] B)")
		// limbs within the class the mixed additions are proved for
		vAssert(vClsLe(vFEc(&e.ysubx), vSReduced) && vClsLe(vFEc(&e.xaddy), vSReduced) && vClsLe(vFEc(&e.t2d), vSReduced), "nielsSlidingMultiples[k]: limbs reduced")
	}
	vReach("table walked")
}
