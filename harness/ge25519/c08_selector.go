package ge25519

import "github.com/oasisprotocol/ed25519/internal/curve25519"

// C08 / C16 / C20: the constant-time table selection of this build configuration (assembly on amd64, the
// reference selector with the unsafe or the slow conditional move otherwise, either limb layout) returns, for
// every digit b in [-8, 8] and the real table, exactly row |b| of the position (the neutral (1, 1, 0) for b = 0)
// with ysubx / xaddy swapped and t2d negated for negative b.  ysubx and xaddy are compared limb by limb with the
// real Expand of the table bytes; t2d is compared as a residue (the assembly leaves the negation unreduced) and
// its limbs must stay within the class nielsAdd2 multiplies with.
func vLimbsVal(x *curve25519.Bignum25519) vZ {
	v := vZi(0)
	for i := range x {
		v = v.Add(vZu(uint64(x[i])).Shl(vLimbOff(i)))
	}
	return v
}

func vh_C08_selector() {
	pos := []int{0, 1, 17, 31}[vCase(0, 3)]
	b := vI8("b")
	vAssume(b >= -8 && b <= 8)
	var t ge25519niels
	scalarmultBaseChooseNiels(&t, &NielsBaseMultiples, pos, b)
	vReach("selector returned")
	P := vZc(vP)
	for k := 0; k <= 8; k++ {
		var ys, xa, td curve25519.Bignum25519
		if k == 0 {
			ys[0], xa[0] = 1, 1
		} else {
			row := &NielsBaseMultiples[pos*8+k-1]
			curve25519.Expand(&ys, row[0:32])
			curve25519.Expand(&xa, row[32:64])
			curve25519.Expand(&td, row[64:96])
		}
		if b == int8(k) {
			vAssert(t.ysubx == ys && t.xaddy == xa, "b = k: (ysubx, xaddy) = row k")
			vAssert(vLimbsVal(&t.t2d).Sub(vLimbsVal(&td)).Mod(P).Eq(vZi(0)), "b = k: t2d = row k")
		}
		if k > 0 && b == int8(-k) {
			vAssert(t.ysubx == xa && t.xaddy == ys, "b = -k: (ysubx, xaddy) = row k swapped")
			vAssert(vLimbsVal(&t.t2d).Add(vLimbsVal(&td)).Mod(P).Eq(vZi(0)), "b = -k: t2d = -(row k)")
		}
	}
	ok := true
	for i := range t.t2d {
		lim := (uint64(130) << uint(vLimbBits(i))) >> 6
		ok = ok && uint64(t.t2d[i]) <= lim && uint64(t.ysubx[i]) <= (uint64(65)<<uint(vLimbBits(i)))>>6 && uint64(t.xaddy[i]) <= (uint64(65)<<uint(vLimbBits(i)))>>6
	}
	vAssert(ok, "selected limbs are within the class the mixed addition accepts (t2d <= 2x nominal)")
}
