// +build 386 force32bit
// +build !force64bit

package ge25519

import "github.com/oasisprotocol/ed25519/internal/curve25519"

func vSetS(p *curve25519.Bignum25519, s int) { p[1] = uint32(s) }
func vGetS(p *curve25519.Bignum25519) int    { return int(p[1]) }
func vLimbOff(i int) int                     { return (51*i + 1) / 2 }
func vLimbBits(i int) int {
	if i%2 == 0 {
		return 26
	}
	return 25
}

const vNLimbs = 10

// Sub carries limbs 0..3 only: those come out below 2^bits, the rest are a_i + 2p_i (+ carry)
func vSubOutClass(a vClass) vClass {
	var c vClass
	for i := 0; i < vNLimbs; i++ {
		if i < 4 {
			c[i] = vSReduced
		} else {
			c[i] = a[i] + vSSubOut
		}
	}
	return c
}

// operand class pairs (first argument, second argument) for which C18 proves Mul on this layout
var vMulPairs = [][2]vClass{
	{{130, 130, 130, 130, 130, 130, 130, 130, 130, 130}, {130, 130, 130, 130, 130, 130, 130, 130, 130, 130}},
	{{65, 65, 65, 65, 194, 194, 194, 194, 194, 194}, {65, 65, 65, 65, 194, 194, 194, 194, 194, 194}},
	{{65, 65, 65, 65, 194, 194, 194, 194, 194, 194}, {130, 130, 130, 130, 130, 130, 130, 130, 130, 130}},
	{{130, 130, 130, 130, 130, 130, 130, 130, 130, 130}, {65, 65, 65, 65, 194, 194, 194, 194, 194, 194}},
}

func vMulPairOK(a, b vClass) bool {
	for _, p := range vMulPairs {
		if vClsDominated(a, p[0]) && vClsDominated(b, p[1]) {
			return true
		}
	}
	return false
}

const (
	vSAddIn       = 200
	vSSubA        = 200
	vSSubB        = 127
	vSSubBAfter   = 255
	vSMulIn       = 194
	vSSquareIn    = 132
	vSContract    = 200
	vSReduced     = 65
	vSSubOut      = 129
	vSSubAfterOut = 0
	vAddAfterCarries = true
)
