package ge25519

// ---------------------------------------------------------------------------
// D_GE: group-abstract execution.  A point is an integer combination of named generators; cell 0 of the first
// coordinate holds the coefficient vector entry (one generator here).  The group-law functions are replaced by
// their meaning, which the D_FE harnesses of C16 establish on the real code (vh_C16_Double: doubleP1p1 followed
// by p1p1ToFull is the doubling; vh_C16_Add, vh_C16_nielsAdd2, ...).

func vGEid(p *Ge25519) vZ       { return vGetZ(&p.x) }
func vGEset(p *Ge25519, v vZ)   { vPut(&p.x, v) }
func vP1id(p *ge25519p1p1) vZ   { return vGetZ(&p.x) }
func vP1set(p *ge25519p1p1, v vZ) { vPut(&p.x, v) }

func vc_geDoubleP1p1(r *ge25519p1p1, p *Ge25519) { vP1set(r, vGEid(p).Mul(vZi(2))) }
func vc_geP1p1ToFull(r *Ge25519, p *ge25519p1p1) { vGEset(r, vP1id(p)) }
func vc_geP1p1ToPartial(r *Ge25519, p *ge25519p1p1) { vGEset(r, vP1id(p)) }

// C09: CofactorMultiply is multiplication by 8 (three doublings, none skipped or repeated), also in place
func vh_C09_CofactorMultiply() {
	vReplace(doubleP1p1, vc_geDoubleP1p1)
	vReplace(p1p1ToFull, vc_geP1p1ToFull)
	var p, r Ge25519
	g := vZfresh("P")
	vGEset(&p, g)
	CofactorMultiply(&r, &p)
	vReach("CofactorMultiply returned")
	vAssert(vGEid(&r).Eq(g.Mul(vZi(8))), "CofactorMultiply(P) = [8]P")
	CofactorMultiply(&p, &p)
	vAssert(vGEid(&p).Eq(g.Mul(vZi(8))), "CofactorMultiply in place = [8]P")
}

// C09: IsNeutralVartime(q) <=> X == 0 and Y == Z (mod p), for every in-class representation of the coordinates
// (Contract by its C18 contract: canonical bytes of the residue)
func vh_C09_IsNeutralVartime() {
	vCutFieldBytes()
	var q Ge25519
	X, Y, Z := vZfresh("X"), vZfresh("Y"), vZfresh("Z")
	vFEset(&q.x, X, vUniform(vSReduced))
	vFEset(&q.y, Y, vUniform(vSReduced))
	vFEset(&q.z, Z, vUniform(vSReduced))
	vFEset(&q.t, vZfresh("T"), vUniform(vSReduced))
	got := IsNeutralVartime(&q)
	vReach("IsNeutralVartime returned")
	vAssert(got == (vCong(X, vZi(0)) && vCong(Y, Z)), "IsNeutralVartime <=> X == 0 and Y == Z (mod p)")
}

// C01/C09: CofactorEqual(p, q) = IsNeutral([8](p - q)): the composition, with the leaves cut by their meaning
func vc_geSub(r *ge25519p1p1, p *Ge25519, q *ge25519pniels) { vP1set(r, vGEid(p).Sub(vGetZ(&q.ysubx))) }
func vc_geFullToPniels(r *ge25519pniels, p *Ge25519)        { vPut(&r.ysubx, vGEid(p)) }
func vc_geIsNeutral(q *Ge25519) bool                         { return vUFBool("isZeroPoint", vGEid(q)) }

func vh_C09_CofactorEqual_composition() {
	vReplace(doubleP1p1, vc_geDoubleP1p1)
	vReplace(p1p1ToFull, vc_geP1p1ToFull)
	vReplace(geSub, vc_geSub)
	vReplace(fullToPniels, vc_geFullToPniels)
	vReplace(IsNeutralVartime, vc_geIsNeutral)
	var p, q Ge25519
	a, b := vZfresh("P"), vZfresh("Q")
	vGEset(&p, a)
	vGEset(&q, b)
	got := CofactorEqual(&p, &q)
	vReach("CofactorEqual returned")
	vAssert(got == vUFBool("isZeroPoint", a.Sub(b).Mul(vZi(8))), "CofactorEqual(P, Q) = IsNeutral([8](P - Q))")
}
