package ge25519

import "github.com/oasisprotocol/ed25519/internal/curve25519"

// ---------------------------------------------------------------------------
// D_FE: field-abstract execution of the group-law code.
// A Bignum25519 holds (cell 0) an integer polynomial in the harness inputs whose residue mod p is the field
// value, and (cell 1) a concrete class number s: every limb is at most s/64 times its nominal size.
// Each field function is replaced by its C18 contract: value = exact ring operation on the values; the
// call-site obligation "operands are in the class C18 assumed" is checked concretely on s.

const vP = "57896044618658097711785492504343953926634992332820282019728792003956564819949"

// class vectors (per-limb bounds in units of 1/64 of the nominal limb size), interned; cell 1 holds the index
const vMaxLimbs = 10

type vClass [vMaxLimbs]int

var vClasses [256]vClass
var vNClasses int

func vIntern(c vClass) int {
	for i := 0; i < vNClasses; i++ {
		if vClasses[i] == c {
			return i
		}
	}
	vClasses[vNClasses] = c
	vNClasses++
	return vNClasses - 1
}

func vUniform(s int) vClass {
	var c vClass
	for i := 0; i < vNLimbs; i++ {
		c[i] = s
	}
	return c
}

func vClsLe(c vClass, s int) bool {
	for i := 0; i < vNLimbs; i++ {
		if c[i] > s {
			return false
		}
	}
	return true
}

func vClsDominated(a, b vClass) bool {
	for i := 0; i < vNLimbs; i++ {
		if a[i] > b[i] {
			return false
		}
	}
	return true
}

func vFEisAbs(p *curve25519.Bignum25519) bool { return vIsAbstractZ(p) }

// value of a field element: abstract polynomial, or the integer value of concrete limbs (table constants)
func vFE(p *curve25519.Bignum25519) vZ {
	if vFEisAbs(p) {
		return vGetZ(p)
	}
	v := vZi(0)
	for i := range p {
		v = v.Add(vZu(uint64(p[i])).Shl(vLimbOff(i)))
	}
	return v
}

func vFEc(p *curve25519.Bignum25519) vClass {
	if vFEisAbs(p) {
		return vClasses[vGetS(p)]
	}
	// concrete limbs: smallest s_i with limb_i <= s_i*2^bits/64
	var c vClass
	for i := range p {
		c[i] = int((uint64(p[i])*64 + (uint64(1) << uint(vLimbBits(i))) - 1) >> uint(vLimbBits(i)))
	}
	return c
}

func vFEset(p *curve25519.Bignum25519, v vZ, c vClass) {
	vPut(p, v)
	vSetS(p, vIntern(c))
}

func vNewFE(name string, s int) curve25519.Bignum25519 {
	var x curve25519.Bignum25519
	vFEset(&x, vZfresh(name), vUniform(s))
	return x
}

func vClsAdd(a, b vClass) vClass {
	var c vClass
	for i := 0; i < vNLimbs; i++ {
		c[i] = a[i] + b[i]
	}
	return c
}

func vc_feAdd(out, a, b *curve25519.Bignum25519) {
	ca, cb := vFEc(a), vFEc(b)
	vAssert(vClsLe(ca, vSAddIn) && vClsLe(cb, vSAddIn), "Add: operands in class")
	vFEset(out, vFE(a).Add(vFE(b)), vClsAdd(ca, cb))
}
func vc_feAddAfterBasic(out, a, b *curve25519.Bignum25519) {
	ca, cb := vFEc(a), vFEc(b)
	vAssert(vClsLe(ca, vSAddIn) && vClsLe(cb, vSAddIn), "AddAfterBasic: operands in class")
	if vAddAfterCarries {
		vFEset(out, vFE(a).Add(vFE(b)), vUniform(vSReduced))
	} else {
		vFEset(out, vFE(a).Add(vFE(b)), vClsAdd(ca, cb))
	}
}
func vc_feAddReduce(out, a, b *curve25519.Bignum25519) {
	ca, cb := vFEc(a), vFEc(b)
	vAssert(vClsLe(ca, vSAddIn) && vClsLe(cb, vSAddIn), "AddReduce: operands in class")
	vFEset(out, vFE(a).Add(vFE(b)), vUniform(vSReduced))
}
func vc_feSub(out, a, b *curve25519.Bignum25519) {
	ca, cb := vFEc(a), vFEc(b)
	vAssert(vClsLe(ca, vSSubA) && vClsLe(cb, vSSubB), "Sub: minuend in class, subtrahend limb-wise <= 2p")
	vFEset(out, vFE(a).Sub(vFE(b)), vSubOutClass(ca))
}
func vc_feSubAfterBasic(out, a, b *curve25519.Bignum25519) {
	ca, cb := vFEc(a), vFEc(b)
	vAssert(vClsLe(ca, vSSubA) && vClsLe(cb, vSSubBAfter), "SubAfterBasic: minuend in class, subtrahend limb-wise <= 4p")
	if vSSubAfterOut == 0 {
		vFEset(out, vFE(a).Sub(vFE(b)), vUniform(vSReduced))
	} else {
		vFEset(out, vFE(a).Sub(vFE(b)), vClsAdd(ca, vUniform(vSSubAfterOut)))
	}
}
func vc_feSubReduce(out, a, b *curve25519.Bignum25519) {
	ca, cb := vFEc(a), vFEc(b)
	vAssert(vClsLe(ca, vSSubA) && vClsLe(cb, vSSubBAfter), "SubReduce: minuend in class, subtrahend limb-wise <= 4p")
	vFEset(out, vFE(a).Sub(vFE(b)), vUniform(vSReduced))
}
func vc_feNeg(out, a *curve25519.Bignum25519) {
	vAssert(vClsLe(vFEc(a), vSSubB), "Neg: operand limb-wise <= 2p")
	vFEset(out, vFE(a).Neg(), vUniform(vSReduced))
}
func vc_feMul(out, a, b *curve25519.Bignum25519) {
	ca, cb := vFEc(a), vFEc(b)
	vLogInts("Mul operand classes (index a, index b)", vIntern(ca), vIntern(cb))
	vAssert(vMulPairOK(ca, cb), "Mul: operand classes dominated by a pair proved in C18")
	vFEset(out, vFE(a).Mul(vFE(b)), vUniform(vSReduced))
}
func vc_feSquare(out, a *curve25519.Bignum25519) {
	ca := vFEc(a)
	vAssert(vClsLe(ca, vSSquareIn), "Square: operand in class")
	vFEset(out, vFE(a).Mul(vFE(a)), vUniform(vSReduced))
}
func vc_feCopy(out, in *curve25519.Bignum25519) {
	if vFEisAbs(in) {
		vFEset(out, vFE(in), vFEc(in))
	} else {
		*out = *in
	}
}

func vCutField() {
	vReplace(curve25519.Add, vc_feAdd)
	vReplace(curve25519.AddAfterBasic, vc_feAddAfterBasic)
	vReplace(curve25519.AddReduce, vc_feAddReduce)
	vReplace(curve25519.Sub, vc_feSub)
	vReplace(curve25519.SubAfterBasic, vc_feSubAfterBasic)
	vReplace(curve25519.SubReduce, vc_feSubReduce)
	vReplace(curve25519.Neg, vc_feNeg)
	vReplace(curve25519.Mul, vc_feMul)
	vReplace(curve25519.Square, vc_feSquare)
	vReplace(curve25519.Copy, vc_feCopy)
}

// a == b (mod p)
func vCong(a, b vZ) bool { return a.Sub(b).Mod(vZc(vP)).Eq(vZi(0)) }

// an abstract extended point (X:Y:Z:T) with fresh coordinate values of class s
func vNewPoint(name string, s int) Ge25519 {
	var p Ge25519
	p.x = vNewFE(name+"X", s)
	p.y = vNewFE(name+"Y", s)
	p.z = vNewFE(name+"Z", s)
	p.t = vNewFE(name+"T", s)
	return p
}

// d = -121665/121666 mod p and 2d, as the integer values of the table constants (checked concretely below)
const vD = "37095705934669439343138083508754565189542113879843219016388785533085940283555"

func vh_C16_curve_constants() {
	P := vZc(vP)
	d := vFE(&ecd)
	vAssert(d.Mod(P).Eq(vZc(vD)), "ecd == d")
	vAssert(vFE(&ec2d).Mod(P).Eq(vZc(vD).Mul(vZi(2)).Mod(P)), "ec2d == 2d")
	vAssert(d.Mul(vZi(121666)).Add(vZi(121665)).Mod(P).Eq(vZi(0)), "d == -121665/121666")
	s := vFE(&sqrtNeg1)
	vAssert(s.Mul(s).Add(vZi(1)).Mod(P).Eq(vZi(0)), "sqrtNeg1^2 == -1")
	vAssert(vClsLe(vFEc(&ecd), 64) && vClsLe(vFEc(&ec2d), 64) && vClsLe(vFEc(&sqrtNeg1), 64), "table constants are reduced")
	// base point: on the curve, T = XY, Z = 1, y = 4/5
	bx, by, bz, bt := vFE(&Basepoint.x), vFE(&Basepoint.y), vFE(&Basepoint.z), vFE(&Basepoint.t)
	vAssert(bz.Eq(vZi(1)) && vCong(bt, bx.Mul(by)), "Basepoint: Z = 1, T = XY")
	vAssert(vCong(by.Mul(vZi(5)), vZi(4)), "Basepoint: y = 4/5")
	vAssert(vCong(by.Mul(by).Sub(bx.Mul(bx)), vZi(1).Add(vZc(vD).Mul(bx.Mul(bx)).Mul(by.Mul(by)))), "Basepoint is on the curve -x^2 + y^2 = 1 + d x^2 y^2")
	vAssert(bx.Mod(vZi(2)).Eq(vZi(0)), "Basepoint x is even (sign bit 0)")
}
