package ge25519

import "github.com/oasisprotocol/ed25519/internal/curve25519"

// ---------------------------------------------------------------------------
// C16 part 1 / C09: the group-law code computes the twisted Edwards law (a = -1), proved as polynomial
// congruences mod p over the field-abstract values.  Inputs are parametrised as X = x z, Y = y z, Z = z,
// T = x y z (every extended point with T Z == X Y and Z != 0 is congruent to such a tuple, and all contracts
// are ring homomorphisms mod p), so the claims are identities in (x, y, z) with no hypotheses.

type vAff struct{ x, y vZ }

func vInPoint(name string) (Ge25519, vAff) {
	x, y, z := vZfresh(name+"x"), vZfresh(name+"y"), vZfresh(name+"z")
	var p Ge25519
	vFEset(&p.x, x.Mul(z), vUniform(vSReduced))
	vFEset(&p.y, y.Mul(z), vUniform(vSReduced))
	vFEset(&p.z, z, vUniform(vSReduced))
	vFEset(&p.t, x.Mul(y).Mul(z), vUniform(vSReduced))
	return p, vAff{x, y}
}

// affine precomputed point (y-x, y+x, 2dxy), Z = 1
func vInNiels(name string) (ge25519niels, vAff) {
	x, y := vZfresh(name+"x"), vZfresh(name+"y")
	var q ge25519niels
	vFEset(&q.ysubx, y.Sub(x), vUniform(vSReduced))
	vFEset(&q.xaddy, y.Add(x), vUniform(vSReduced))
	vFEset(&q.t2d, vZc(vD).Mul(vZi(2)).Mul(x).Mul(y), vUniform(vSReduced))
	return q, vAff{x, y}
}

// projective precomputed point (Y-X, Y+X, Z, 2dT)
func vInPniels(name string) (ge25519pniels, vAff) {
	x, y, z := vZfresh(name+"x"), vZfresh(name+"y"), vZfresh(name+"z")
	var q ge25519pniels
	vFEset(&q.ysubx, y.Mul(z).Sub(x.Mul(z)), vUniform(vSReduced))
	vFEset(&q.xaddy, y.Mul(z).Add(x.Mul(z)), vUniform(vSReduced))
	vFEset(&q.z, z, vUniform(vSReduced))
	vFEset(&q.t2d, vZc(vD).Mul(vZi(2)).Mul(x).Mul(y).Mul(z), vUniform(vSReduced))
	return q, vAff{x, y}
}

// (X:Y:Z) represents the Edwards sum of a and b (sign = -1: difference)
func vIsSum(X, Y, Z vZ, a, b vAff, sign int, what string) {
	bx := b.x
	if sign < 0 {
		bx = bx.Neg()
	}
	dxy := vZc(vD).Mul(a.x).Mul(bx).Mul(a.y).Mul(b.y)
	vAssert(vCong(X.Mul(vZi(1).Add(dxy)), Z.Mul(a.x.Mul(b.y).Add(a.y.Mul(bx)))), what+": x3 (1 + d x1 x2 y1 y2) == x1 y2 + y1 x2")
	vAssert(vCong(Y.Mul(vZi(1).Sub(dxy)), Z.Mul(a.y.Mul(b.y).Add(a.x.Mul(bx)))), what+": y3 (1 - d x1 x2 y1 y2) == y1 y2 + x1 x2")
}

// doubling in the form the dbl-2008-hwcd formulas implement: x3 = 2xy/(y^2-x^2), y3 = (y^2+x^2)/(2-(y^2-x^2));
// on the curve -x^2+y^2 = 1+d x^2 y^2 this is the addition law applied to (P, P) (vh_C16_doubling_is_addition)
func vIsDouble(X, Y, Z vZ, a vAff, what string) {
	yy, xx := a.y.Mul(a.y), a.x.Mul(a.x)
	vAssert(vCong(X.Mul(yy.Sub(xx)), Z.Mul(vZi(2)).Mul(a.x).Mul(a.y)), what+": x3 (y^2 - x^2) == 2 x y")
	vAssert(vCong(Y.Mul(vZi(2).Sub(yy.Sub(xx))), Z.Mul(yy.Add(xx))), what+": y3 (2 - (y^2 - x^2)) == y^2 + x^2")
}

func vh_C16_doubling_is_addition() {
	x, y := vZfresh("x"), vZfresh("y")
	d := vZc(vD)
	xx, yy := x.Mul(x), y.Mul(y)
	// curve equation as hypothesis: y^2 - x^2 - 1 - d x^2 y^2 = k p
	vAssume(vCong(yy.Sub(xx), vZi(1).Add(d.Mul(xx).Mul(yy))))
	vReach("a point on the curve")
	vAssert(vCong(vZi(1).Add(d.Mul(xx).Mul(yy)), yy.Sub(xx)), "on the curve 1 + d x^2 y^2 == y^2 - x^2 (x-denominator of P+P)")
	vAssert(vCong(vZi(1).Sub(d.Mul(xx).Mul(yy)), vZi(2).Sub(yy.Sub(xx))), "on the curve 1 - d x^2 y^2 == 2 - (y^2 - x^2) (y-denominator of P+P)")
}

func vFull(p *Ge25519) (X, Y, Z, T vZ) { return vFE(&p.x), vFE(&p.y), vFE(&p.z), vFE(&p.t) }

func vIsExtended(p *Ge25519, what string) {
	X, Y, Z, T := vFull(p)
	vAssert(vCong(T.Mul(Z), X.Mul(Y)), what+": T Z == X Y")
	vAssert(vClsLe(vFEc(&p.x), vSReduced) && vClsLe(vFEc(&p.y), vSReduced) && vClsLe(vFEc(&p.z), vSReduced) && vClsLe(vFEc(&p.t), vSReduced), what+": coordinates reduced")
}

func vh_C16_Add() {
	vCutField()
	p, a := vInPoint("p")
	q, b := vInPoint("q")
	var r Ge25519
	Add(&r, &p, &q)
	vReach("Add returned")
	X, Y, Z, _ := vFull(&r)
	vIsSum(X, Y, Z, a, b, 1, "Add")
	vIsExtended(&r, "Add")
}

func vh_C16_Add_aliased() {
	vCutField()
	p, a := vInPoint("p")
	q, b := vInPoint("q")
	Add(&q, &q, &p) // the batch code accumulates in place
	X, Y, Z, _ := vFull(&q)
	vIsSum(X, Y, Z, b, a, 1, "Add (in place)")
	vIsExtended(&q, "Add (in place)")
}

func vh_C16_Double() {
	vCutField()
	p, a := vInPoint("p")
	var r Ge25519
	Double(&r, &p)
	vReach("Double returned")
	X, Y, Z, _ := vFull(&r)
	vIsDouble(X, Y, Z, a, "Double")
	vIsExtended(&r, "Double")
	Double(&p, &p)
	X, Y, Z, _ = vFull(&p)
	vIsDouble(X, Y, Z, a, "Double (in place)")
}

func vh_C16_doublePartial() {
	vCutField()
	p, a := vInPoint("p")
	doublePartial(&p, &p)
	X, Y, Z := vFE(&p.x), vFE(&p.y), vFE(&p.z)
	vIsDouble(X, Y, Z, a, "doublePartial")
}

func vh_C16_nielsAdd2() {
	vCutField()
	p, a := vInPoint("p")
	q, b := vInNiels("q")
	nielsAdd2(&p, &q)
	vReach("nielsAdd2 returned")
	X, Y, Z, _ := vFull(&p)
	vIsSum(X, Y, Z, a, b, 1, "nielsAdd2")
	vIsExtended(&p, "nielsAdd2")
}

func vh_C16_pnielsAdd() {
	vCutField()
	p, a := vInPoint("p")
	q, b := vInPniels("q")
	var r ge25519pniels
	pnielsAdd(&r, &p, &q)
	vReach("pnielsAdd returned")
	// r = (Y-X, Y+X, Z, 2dT) of the sum: recover X, Y (times 2) and check against the law
	ys, xa, Z, t2d := vFE(&r.ysubx), vFE(&r.xaddy), vFE(&r.z), vFE(&r.t2d)
	X2, Y2 := xa.Sub(ys), xa.Add(ys) // 2X, 2Y
	vIsSum(X2, Y2, Z.Mul(vZi(2)), a, b, 1, "pnielsAdd")
	// t2d Z == 2d X Y   <=>   4 t2d Z == 2d (2X)(2Y)
	vAssert(vCong(t2d.Mul(Z).Mul(vZi(4)), vZc(vD).Mul(vZi(2)).Mul(X2).Mul(Y2)), "pnielsAdd: t2d Z == 2 d X Y")
	vAssert(vMulPairOK(vFEc(&r.ysubx), vFEc(&r.xaddy)) && vClsLe(vFEc(&r.z), vSReduced) && vClsLe(vFEc(&r.t2d), vSReduced), "pnielsAdd: output classes")
}

func vh_C16_fullToPniels() {
	vCutField()
	p, a := vInPoint("p")
	var r ge25519pniels
	fullToPniels(&r, &p)
	X, Y, Z, T := vFull(&p)
	vAssert(vCong(vFE(&r.ysubx), Y.Sub(X)) && vCong(vFE(&r.xaddy), Y.Add(X)) && vCong(vFE(&r.z), Z), "fullToPniels: (Y-X, Y+X, Z)")
	vAssert(vCong(vFE(&r.t2d), vZc(vD).Mul(vZi(2)).Mul(T)), "fullToPniels: t2d == 2 d T")
	_ = a
}

func vVartimeCase(fn func(r *ge25519p1p1, p *Ge25519, sign uint8) vAff, what string) {
	vCutField()
	sign := vCase(0, 1)
	p, a := vInPoint("p")
	var t ge25519p1p1
	b := fn(&t, &p, uint8(sign))
	var r Ge25519
	p1p1ToFull(&r, &t)
	vReach(what + " returned")
	X, Y, Z, _ := vFull(&r)
	s := 1
	if sign == 1 {
		s = -1
	}
	vIsSum(X, Y, Z, a, b, s, what)
	vIsExtended(&r, what)
	var r2 Ge25519
	p1p1ToPartial(&r2, &t)
	vIsSum(vFE(&r2.x), vFE(&r2.y), vFE(&r2.z), a, b, s, what+" (partial)")
}

func vh_C16_nielsAdd2P1p1Vartime() {
	vVartimeCase(func(r *ge25519p1p1, p *Ge25519, sign uint8) vAff {
		q, b := vInNiels("q")
		nielsAdd2P1p1Vartime(r, p, &q, sign)
		return b
	}, "nielsAdd2P1p1Vartime")
}

func vh_C16_pnielsAddP1P1Vartime() {
	vVartimeCase(func(r *ge25519p1p1, p *Ge25519, sign uint8) vAff {
		q, b := vInPniels("q")
		pnielsAddP1P1Vartime(r, p, &q, sign)
		return b
	}, "pnielsAddP1P1Vartime")
}

// C01/C09: geSub + p1p1ToFull = P - Q; CofactorMultiply = three doublings; ProjectiveToExtended keeps the point
func vh_C09_geSub() {
	vCutField()
	p, a := vInPoint("p")
	q, b := vInPniels("q")
	var t ge25519p1p1
	geSub(&t, &p, &q)
	var r Ge25519
	p1p1ToFull(&r, &t)
	vReach("geSub returned")
	X, Y, Z, _ := vFull(&r)
	vIsSum(X, Y, Z, a, b, -1, "geSub")
	vIsExtended(&r, "geSub")
}

func vh_C09_ProjectiveToExtended() {
	vCutField()
	x, y, z := vZfresh("x"), vZfresh("y"), vZfresh("z")
	var p, r Ge25519
	vFEset(&p.x, x.Mul(z), vUniform(vSReduced))
	vFEset(&p.y, y.Mul(z), vUniform(vSReduced))
	vFEset(&p.z, z, vUniform(vSReduced))
	vFEset(&p.t, vZfresh("garbage"), vUniform(vSReduced)) // projective input: T is not meaningful
	ProjectiveToExtended(&r, &p)
	X, Y, Z, _ := vFull(&r)
	vAssert(vCong(X, x.Mul(Z)) && vCong(Y, y.Mul(Z)), "ProjectiveToExtended keeps the affine point")
	vIsExtended(&r, "ProjectiveToExtended")
}

var _ = curve25519.Add
