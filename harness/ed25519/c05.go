package ed25519

// C05: ZIP-215 mode == ZIP-215 predicate; default => zip215; modes differ only on small-order A or R.
func vh_C05_VerifyWithOptions_zip215() {
	got, wantDefault, wantZip, zip := vVerifyWithOptionsCase(true)
	vReach("VerifyWithOptions returned")
	want := wantDefault
	if zip {
		want = wantZip
	}
	vAssert(got == want, "VerifyWithOptions == predicate selected by the ZIP-215 flag")
	vAssert(!wantDefault || wantZip, "default-mode acceptance implies ZIP-215 acceptance")
}
