package ed25519

import (
	"crypto"
	"crypto/sha512"

	"github.com/oasisprotocol/ed25519/internal/ge25519"
)

// C07 (a): writeDom2 emits exactly prefix || flag || len || context (RFC 8032 dom2), for both flags and
// every context of length 0..255 (opaque content); longer contexts panic.
func vh_C07_writeDom2_bytes() {
	vPrune(true)
	flag := vCase(0, 1)
	c := vBlob("ctx")
	vAssume(len(c) <= 255)
	h := sha512.New()
	writeDom2(h, dom2Flag(flag), c)
	want := vSeqStr("SigEd25519 no Ed25519 collisions").Cat(vSeqByte(byte(flag))).Cat(vSeqByte(byte(len(c)))).Cat(vSeqOf(c))
	vReach("writeDom2 returned")
	vAssert(vHashState(h).Eq(want), "dom2(flag, ctx) = prefix || flag || len(ctx) || ctx")
}

// the same with contexts of concrete boundary lengths and symbolic bytes (code that copies or indexes the
// context is then executed exactly; an off-by-one at the 255-byte limit shows here)
var vDom2Lens = [...]int{0, 1, 2, 254, 255}

func vh_C07_writeDom2_bytes_boundary_lengths() {
	flag := vCase(0, 1)
	n := vDom2Lens[vCase(0, len(vDom2Lens)-1)]
	c := vBytes("ctx", n)
	h := sha512.New()
	writeDom2(h, dom2Flag(flag), c)
	want := vSeqStr("SigEd25519 no Ed25519 collisions").Cat(vSeqByte(byte(flag))).Cat(vSeqByte(byte(n))).Cat(vSeqOf(c))
	vReach("writeDom2 returned")
	vAssert(vHashState(h).Eq(want), "dom2(flag, ctx) = prefix || flag || len(ctx) || ctx (boundary lengths)")
}

func vh_C07_writeDom2_refuses_long() {
	vPrune(true)
	c := vBlob("ctx")
	vAssume(len(c) > 255)
	h := sha512.New()
	p := vCatch(func() { writeDom2(h, fCtx, c) })
	vAssert(p, "writeDom2 panics for contexts longer than 255 bytes")
}

// C07 (b): the encoding (flag, ctx) -> hash input is injective and prefix-free: if
// dom2(f,c) || X == dom2(f',c') || X' for arbitrary continuations X, X' then f == f' and c == c'.
func vh_C07_dom2_injective() {
	f1, f2 := vU8("f1"), vU8("f2")
	c1, c2 := vBlob("c1"), vBlob("c2")
	x1, x2 := vBlob("x1"), vBlob("x2")
	vAssume(len(c1) <= 255 && len(c2) <= 255)
	vLinkLen(c1)
	vLinkLen(c2)
	s1 := vsDom2(f1, len(c1), vSeqOf(c1)).Cat(vSeqOf(x1))
	s2 := vsDom2(f2, len(c2), vSeqOf(c2)).Cat(vSeqOf(x2))
	vAssume(s1.Eq(s2))
	vReach("two equal hash inputs")
	vAssert(f1 == f2 && vSeqOf(c1).Eq(vSeqOf(c2)), "equal hash inputs imply equal (flag, context)")
}

// C07 (b'): a pure hash input R || A || M can coincide with a prefixed one only if R is the 32-byte dom2
// prefix string; the real decoder is run concretely on that string: it does not decode, so no accepted
// pure signature has a hash input that is also a ctx/ph hash input.
func vh_C07_prefix_is_not_a_point() {
	pfx := []byte(dom2Prefix)
	vAssert(len(pfx) == 32, "dom2 prefix is 32 bytes (occupies exactly the R position)")
	var P ge25519.Ge25519
	vAssert(!ge25519.UnpackVartime(&P, pfx), "the dom2 prefix string is not a decodable R")
}

// C07 (c): context length contract of PrivateKey.Sign: error exactly for contexts longer than 255 bytes
// (Hash = 0, any message), no panic.
func vh_C07_Sign_context_length() {
	vCutSign()
	priv := vBytes("priv", 64)
	ctx := vBlobString("ctx")
	msg := vBlob("M")
	sig, err := PrivateKey(priv).Sign(nil, msg, &Options{Context: ctx})
	vReach("PrivateKey.Sign returned")
	vAssert(vIsNilErr(err) == (len(ctx) <= 255), "Sign refuses exactly the contexts longer than 255 bytes")
	if !vIsNilErr(err) {
		vAssert(sig == nil, "no signature on refusal")
	}
}

var vDigestLens = [...]int{64, 0, 1, 63, 65, 128}

// C07 (c): pre-hash contract of PrivateKey.Sign: with SHA-512 selected only 64-byte inputs are accepted;
// hash selectors other than 0 and SHA-512 are refused.
func vh_C07_Sign_digest_length() {
	vCutSign()
	n := vDigestLens[vCase(0, len(vDigestLens)-1)]
	priv := vBytes("priv", 64)
	msg := vBytes("digest", n)
	_, err := PrivateKey(priv).Sign(nil, msg, &Options{Hash: crypto.SHA512})
	vAssert(vIsNilErr(err) == (n == 64), "Ed25519ph admits only 64-byte digests (Sign)")
	_, err2 := PrivateKey(priv).Sign(nil, msg, crypto.SHA512)
	vAssert(vIsNilErr(err2) == (n == 64), "Ed25519ph admits only 64-byte digests (Sign, crypto.SHA512)")
}

func vh_C07_Sign_hash_selector() {
	vCutSign()
	priv := vBytes("priv", 64)
	msg := vBytes("msg", 64)
	hsel := vInt("hash")
	vAssume(hsel != 0 && hsel != int(crypto.SHA512))
	_, err := PrivateKey(priv).Sign(nil, msg, &Options{Hash: crypto.Hash(hsel)})
	vReach("Sign with foreign hash selector returned")
	vAssert(!vIsNilErr(err), "unsupported hash selectors are refused (Sign)")
	_, err2 := PrivateKey(priv).Sign(nil, msg, crypto.Hash(hsel))
	vAssert(!vIsNilErr(err2), "unsupported hash selectors are refused (Sign, crypto.Hash)")
}

// C07 (c): VerifyWithOptions panics exactly for over-long contexts, wrong digest length, unsupported hash.
func vh_C07_Verify_refusals() {
	vCutVerify()
	pk := vBytes("pk", 32)
	sig := vBytes("sig", 64)
	which := vCase(0, 2)
	switch which {
	case 0:
		ctx := vBlobString("ctx")
		msg := vBlob("M")
		p := vCatch(func() { VerifyWithOptions(pk, msg, sig, &Options{Context: ctx}) })
		vAssert(p == (len(ctx) > 255), "VerifyWithOptions panics exactly for contexts longer than 255 bytes")
	case 1:
		n := vDigestLens[vCase(0, len(vDigestLens)-1)]
		msg := vBytes("digest", n)
		p := vCatch(func() { VerifyWithOptions(pk, msg, sig, &Options{Hash: crypto.SHA512}) })
		vAssert(p == (n != 64), "VerifyWithOptions panics exactly for digests that are not 64 bytes")
	case 2:
		hsel := vInt("hash")
		msg := vBytes("msg", 64)
		p := vCatch(func() { VerifyWithOptions(pk, msg, sig, &Options{Hash: crypto.Hash(hsel)}) })
		vAssert(p == (hsel != 0 && hsel != int(crypto.SHA512)), "VerifyWithOptions panics exactly for unsupported hash selectors")
	}
}
