package ed25519

import (
	"crypto"

	"github.com/oasisprotocol/ed25519/internal/ge25519"
	"github.com/oasisprotocol/ed25519/internal/modm"
)

// multiScalarmultVartime(r, heap, count) => r = msm_count(points[0..count), scalars[0..count)).
// points[0] must be the base point (checked limb by limb against the table constant).
func vc_msm(r *ge25519.Ge25519, heap *batchHeap, count int) {
	vAssert(heap.points[0] == ge25519.Basepoint, "batch point 0 is the base point")
	args := make([]interface{}, 0, 2*count)
	for i := 1; i < count; i++ {
		args = append(args, vGetPt(&heap.points[i]))
	}
	for i := 0; i < count; i++ {
		args = append(args, vGetSc(&heap.scalars[i]))
	}
	vPut(r, vUFPt("msm"+vItoa(count), args...))
	// the Bos-Coster routine works in place: the point and scalar arrays are scratch and hold unspecified
	// values afterwards (state that a later chunk must not rely on)
	for i := 0; i < count; i++ {
		vClobberPoint(&heap.points[i], "clob"+vItoa(count)+"_"+vItoa(i))
		vPut(&heap.scalars[i], vUFSc("clobberedScalar", uint64(count), uint64(i)))
	}
}

func vCutBatch() {
	vCutVerify()
	vReplace(modm.Mul, vc_scMul)
	vReplace(modm.Add, vc_scAdd)
	vReplace(multiScalarmultVartime, vc_msm)
}

type vEntry struct {
	pk, msg, sig []byte
}

// documented single-verification verdict of one entry under opts (false for malformed lengths or refused digest)
func vsEntryVerdict(en vEntry, variant int, ctx string, zip bool) bool {
	if len(en.pk) != 32 {
		return false
	}
	if variant == 2 && len(en.msg) != 64 {
		return false
	}
	return vsVerifyPredicate(en.pk, en.msg, en.sig, variant, ctx, zip)
}

// the final group-equation conjunct of the predicate for a well-formed entry
func vsEntryEquation(en vEntry, variant int, ctx string) bool {
	R, S := en.sig[:32], en.sig[32:64]
	in := vSeqOf(R).Cat(vSeqOf(en.pk)).Cat(vSeqOf(en.msg))
	switch variant {
	case 1:
		in = vsDom2(0, len(ctx), vSeqStr(ctx)).Cat(in)
	case 2:
		in = vsDom2(1, len(ctx), vSeqStr(ctx)).Cat(in)
	}
	h := vUFSc("redL64", vHash(in))
	s := vUFSc("redL32", S)
	return vUFBool("cofEq", vUFPt("dsm", vsDecNeg(en.pk), h, s), vsDec(R))
}

// the batch equation term the implementation is expected to build for a chunk of well-formed entries
// whose randomisers are the 16-byte pieces of rnd
func vsBatchEquation(es []vEntry, rnd []byte, variant int, ctx string) bool {
	m := len(es)
	args := make([]interface{}, 0, 4*m+1)
	z := make([]vSc, m)
	for i := range es {
		z[i] = vUFSc("exp16", rnd[16*i:16*i+16])
	}
	for i := range es {
		args = append(args, vsDecNeg(es[i].pk))
	}
	for i := range es {
		args = append(args, vUFPt("ptN", es[i].sig[:32]))
	}
	var sum vSc
	for i := range es {
		t := vUFSc("mulL", vUFSc("redL32", es[i].sig[32:64]), z[i])
		if i == 0 {
			sum = t
		} else {
			sum = vUFSc("addL", sum, t)
		}
	}
	args = append(args, sum)
	for i := range es {
		R := es[i].sig[:32]
		in := vSeqOf(R).Cat(vSeqOf(es[i].pk)).Cat(vSeqOf(es[i].msg))
		switch variant {
		case 1:
			in = vsDom2(0, len(ctx), vSeqStr(ctx)).Cat(in)
		case 2:
			in = vsDom2(1, len(ctx), vSeqStr(ctx)).Cat(in)
		}
		args = append(args, vUFSc("mulL", vUFSc("redL64", vHash(in)), z[i]))
	}
	for i := range es {
		args = append(args, z[i])
	}
	return vUFBool("isId", vUFPt("mul8", vUFPt("msm"+vItoa(2*m+1), args...)))
}

var vBatchSizesQuick = [...]int{0, 1, 2, 3, 4, 5, 6, 8, 9, 68, 70, 131}
var vBatchSizesThorough = [...]int{0, 1, 2, 3, 4, 5, 6, 7, 8, 9, 13, 63, 64, 65, 68, 70, 128, 131}

// malformed-entry kinds: 0 none, 1 key of 31 bytes, 2 signature of 63 bytes, 3 signature of 65 bytes, 4 nil signature, 5 nil key,
// 6 key of 33 bytes, 7 key of 64 bytes, 8 digest of 63 bytes (ph)
// vReplicate > 0: entries 0..vReplicate-1 are one and the same symbolic entry (the same slices), which keeps
// multi-chunk batches tractable: the first chunks collapse by hash-consing and syntactic path pruning while
// the entries of the last chunk / remainder stay independent
var vReplicate int

func vBatchEntries(n, badPos, badKind, variant int) []vEntry {
	es := make([]vEntry, n)
	for i := 0; i < n; i++ {
		if i > 0 && i < vReplicate {
			es[i] = es[0]
			continue
		}
		kl, sl, ml := 32, 64, 64
		isNilSig, isNilKey := false, false
		if i == badPos {
			switch badKind {
			case 1:
				kl = 31
			case 2:
				sl = 63
			case 3:
				sl = 65
			case 4:
				isNilSig = true
			case 5:
				isNilKey = true
			case 6:
				kl = 33
			case 7:
				kl = 64
			case 8:
				ml = 63
			}
		}
		if !isNilKey {
			es[i].pk = vBytes("pk"+vItoa(i), kl)
		}
		if !isNilSig {
			es[i].sig = vBytes("sig"+vItoa(i), sl)
		}
		if variant == 2 {
			es[i].msg = vBytes("digest"+vItoa(i), ml)
		} else {
			es[i].msg = vBlob("M" + vItoa(i))
		}
	}
	return es
}

func vItoa(i int) string {
	if i < 10 {
		return string(rune('0' + i))
	}
	return vItoa(i/10) + string(rune('0'+i%10))
}

// vBatchRun calls VerifyBatch on n fully symbolic entries (one optionally malformed) and installs the
// assumptions A1/A2 for every chunk of well-formed entries.
// Assumption A1 (layers 2-3 of the design: batch algebra + exact multi-scalar multiplication + the
// probabilistic soundness of random linear combination): for every 64-entry-or-smaller chunk of well-formed
// entries, the batch equation built from the documented points/scalars holds iff every entry's own
// cofactored equation holds.  A2: decodability does not depend on the sign bit (C10).
type vBatchResult struct {
	es       []vEntry
	ok       bool
	valid    []bool
	err      error
	panicked bool
	nChunks  int
	ctx      string
	zip      bool
	entropyOK bool
}

func vBatchRun(n, badPos, badKind, variant int) *vBatchResult {
	vCutBatch()
	vPrune(false)
	r := &vBatchResult{}
	ev := variant
	if ev == 3 {
		ev = 2
	}
	es := vBatchEntries(n, badPos, badKind, ev)
	r.es = es
	zip := vBool("zip215")
	r.zip = zip
	opts := &Options{ZIP215Verify: zip}
	ctx := ""
	switch variant {
	case 1:
		ctx = "verif-ctx"
		opts.Context = ctx
	case 2:
		ctx = "verif-ctx"
		opts.Context = ctx
		opts.Hash = crypto.SHA512
	case 3:
		// Ed25519ph with the empty context: dom2 is still hashed (flag 1, length 0)
		opts.Hash = crypto.SHA512
		variant = 2
	}
	r.ctx = ctx
	pks := make([]PublicKey, n)
	msgs := make([][]byte, n)
	sigs := make([][]byte, n)
	for i := range es {
		pks[i], msgs[i], sigs[i] = es[i].pk, es[i].msg, es[i].sig
	}
	r.panicked = vCatch(func() { r.ok, r.valid, r.err = VerifyBatch(vReader("entropy"), pks, msgs, sigs, opts) })
	vReach("VerifyBatch returned")
	// entropy: one read of 16*chunk bytes per chunk of >= 4 entries
	nChunks := 0
	for rem := n; rem >= 4; {
		c := rem
		if c > 64 {
			c = 64
		}
		vAssert(vReaderCallSize(nChunks) == 16*c, "randomiser read size for the chunk")
		rem -= c
		nChunks++
	}
	r.nChunks = nChunks
	vAssert(vReaderCalls() == nChunks, "one entropy read per chunk")
	anyFail := false
	for k := 0; k < nChunks; k++ {
		anyFail = anyFail || vReaderFailed(k)
	}
	if anyFail {
		return r
	}
	for k := 0; k < nChunks; k++ {
		vAssume(!vReaderFailed(k))
	}
	r.entropyOK = true
	// assumptions A1/A2 per chunk
	off := 0
	for k := 0; k < nChunks; k++ {
		c := n - off
		if c > 64 {
			c = 64
		}
		wellFormed := true
		for i := off; i < off+c; i++ {
			if len(es[i].pk) != 32 || len(es[i].sig) != 64 || (variant == 2 && len(es[i].msg) != 64) {
				wellFormed = false
			}
		}
		if wellFormed {
			all := true
			for i := off; i < off+c; i++ {
				all = all && vsEntryEquation(es[i], variant, ctx)
				vAssume(vUFBool("okN", es[i].sig[:32]) == vsDecOK(es[i].sig[:32]))
			}
			vAssume(vsBatchEquation(es[off:off+c], vReaderBytes(k), variant, ctx) == all)
		}
		off += c
	}
	return r
}

// C06: VerifyBatch per-entry result == single verification of that entry, summary == conjunction,
// one result per entry, no error and no panic; for every batch length in the bound, any position of one
// malformed entry, all entry bytes, all three variants, ZIP-215 flag symbolic.
func vBatchCase(variant int) {
	var n int
	if vTier() == 0 {
		n = vBatchSizesQuick[vCase(0, len(vBatchSizesQuick)-1)]
	} else {
		n = vBatchSizesThorough[vCase(0, len(vBatchSizesThorough)-1)]
	}
	vNote("batch lengths: quick {0,1,2,3,4,5,6,8,9} fully symbolic plus {68,70,131} with the first 64 resp. 128 entries being one replicated symbolic entry (second/third chunk and remainder independent); thorough adds {7,13} fully symbolic and {63,64,65,68,70,128,131} with all but the last six entries replicated and a short signature / long key / short digest among the independent ones; at most one malformed entry (8 kinds: short/long/nil key, short/long/nil signature, short digest) at first/middle/last position; all entry bytes symbolic; messages opaque")
	vReplicate = 0
	if vTier() == 0 && n > 9 {
		vReplicate = (n / 64) * 64
	}
	if vTier() == 1 && n > 13 {
		// thorough: every chunk boundary (63..69, 127..131) with the last six entries independent and all
		// malformed kinds among them; fully symbolic 64-entry chunks exhaust memory (measured) and are outside
		vReplicate = n - 6
	}
	badKind := 0
	badPos := -1
	maxKind := 7
	if variant == 2 {
		maxKind = 8
	}
	if n > 9 && vTier() == 0 {
		// multi-chunk batches in the quick tier: well-formed, or a truncated signature at the last position
		if vCase(0, 1) == 1 {
			badKind, badPos = 2, n-1
		}
	} else if n > 13 {
		// thorough, chunk-boundary lengths: well-formed, or one of three malformed kinds (short signature, long
		// key, short digest where it applies) at the first independent / the last position
		kinds := [...]int{0, 2, 6, 8}
		k := kinds[vCase(0, maxKind/3+1)]
		if k != 0 {
			badKind = k
			badPos = n - 1
			if vCase(0, 1) == 1 {
				badPos = vReplicate
			}
		}
	} else if n > 0 {
		badKind = vCase(0, maxKind)
		if badKind != 0 {
			switch vCase(0, 2) {
			case 0:
				badPos = 0
			case 1:
				badPos = n / 2
			case 2:
				badPos = n - 1
			}
		}
	}
	if vReplicate > 0 && badPos >= 0 && badPos < vReplicate {
		badPos = vReplicate + badPos%(n-vReplicate) // keep the malformed entry among the independent ones
	}
	r := vBatchRun(n, badPos, badKind, variant)
	vAssert(!r.panicked, "VerifyBatch never panics")
	if !r.entropyOK {
		vAssert(!vIsNilErr(r.err), "an entropy failure surfaces as an error")
		return
	}
	vAssert(vIsNilErr(r.err), "no error for matching argument counts, admissible context and working entropy")
	vAssert(len(r.valid) == n, "one result per entry")
	conj := true
	for i := 0; i < n; i++ {
		want := vsEntryVerdict(r.es[i], variant, r.ctx, r.zip)
		vAssert(r.valid[i] == want, "per-entry result == single verification of the entry")
		conj = conj && want
	}
	vAssert(r.ok == conj, "summary flag == conjunction of the entries")
}

func vh_C06_VerifyBatch_pure() { vBatchCase(0) }
func vh_C06_VerifyBatch_ctx()  { vBatchCase(1) }
func vh_C06_VerifyBatch_ph()   { vBatchCase(2) }
