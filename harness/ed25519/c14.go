package ed25519

import "crypto"

// C14: GenerateKey reads exactly 32 bytes once and returns the pair NewKeyFromSeed derives (or the error and no key).
func vh_C14_GenerateKey() {
	vCutSign()
	pub, priv, err := GenerateKey(vReader("entropy"))
	vReach("GenerateKey returned")
	vAssert(vReaderCalls() == 1 && vReaderCallSize(0) == 32 && vReaderCallIsReadFull(0), "exactly one io.ReadFull of 32 bytes (a bare Read may deliver fewer), no other read")
	if vReaderFailed(0) {
		vAssert(!vIsNilErr(err) && pub == nil && priv == nil, "reader error => (nil, nil, err)")
	} else {
		seed := vReaderBytes(0)
		want := NewKeyFromSeed(seed)
		vAssert(vIsNilErr(err), "no error")
		vAssert(vBytesEq(priv, want), "private key = NewKeyFromSeed(bytes read)")
		vAssert(vBytesEq(pub, want[32:]), "public key = second half of the private key")
		vAssert(!vSameObject(pub, priv), "public key does not alias the private key")
	}
}

// C14: accessors return fresh copies consistent with the key; NewKeyFromSeed(k.Seed()) == k.
func vh_C14_accessors() {
	vCutSign()
	seed := vBytes("seed", 32)
	k := NewKeyFromSeed(seed)
	pub := k.Public().(PublicKey)
	sd := k.Seed()
	vReach("accessors returned")
	vAssert(vBytesEq(pub, k[32:]), "Public() = bytes 32..63")
	vAssert(vBytesEq(sd, k[:32]) && vBytesEq(sd, seed), "Seed() = bytes 0..31 = the seed")
	vAssert(!vSameObject(pub, k) && !vSameObject(sd, k) && !vSameObject(sd, pub) && !vSameObject(k, seed), "accessor results and the key are distinct objects")
	k2 := NewKeyFromSeed(k.Seed())
	vAssert(vBytesEq(k2, k) && k2.Equal(k) && k.Equal(k2), "NewKeyFromSeed(k.Seed()) equals k")
	vAssert(k.Public().(PublicKey).Equal(k2.Public()), "public keys agree")
}

// accessors on an arbitrary well-formed 64-byte key
func vh_C14_accessors_any_key() {
	k := PrivateKey(vBytes("k", 64))
	pub := k.Public().(PublicKey)
	sd := k.Seed()
	vAssert(len(pub) == 32 && len(sd) == 32, "lengths")
	vAssert(vBytesEq(pub, k[32:]) && vBytesEq(sd, k[:32]), "split is seed || public key")
	vAssert(!vSameObject(pub, k) && !vSameObject(sd, k), "fresh copies")
	// writing to the copies must not change the key
	pub[0] ^= 1
	sd[31] ^= 0x80
	vAssert(pub[0] != k[32] && sd[31] != k[31], "copies are independent of the key")
}

var vEqLens = [...]int{64, 0, 32, 63, 65}

// C14: Equal is true exactly for byte-identical keys of the same type.
func vh_C14_PrivateKey_Equal() {
	n := vEqLens[vCase(0, len(vEqLens)-1)]
	a := PrivateKey(vBytes("a", 64))
	b := PrivateKey(vBytes("b", n))
	vReach("comparing")
	vAssert(a.Equal(b) == vBytesEq(a, b), "PrivateKey.Equal <=> same length and all bytes equal")
	vAssert(!a.Equal(PublicKey(b)), "a public key never equals a private key")
	vAssert(!a.Equal([]byte(b)), "a plain byte slice is a foreign type")
	vAssert(!a.Equal(nil), "nil interface")
	var c crypto.PrivateKey = a
	vAssert(a.Equal(c), "reflexive")
}

var vEqLensPub = [...]int{32, 0, 31, 33, 64}

func vh_C14_PublicKey_Equal() {
	n := vEqLensPub[vCase(0, len(vEqLensPub)-1)]
	a := PublicKey(vBytes("a", 32))
	b := PublicKey(vBytes("b", n))
	vReach("comparing")
	vAssert(a.Equal(b) == vBytesEq(a, b), "PublicKey.Equal <=> same length and all bytes equal")
	vAssert(!a.Equal(PrivateKey(b)), "a private key never equals a public key")
	vAssert(!a.Equal([]byte(b)), "a plain byte slice is a foreign type")
	vAssert(!a.Equal(nil), "nil interface")
}
