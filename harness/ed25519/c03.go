package ed25519

import (
	"github.com/oasisprotocol/ed25519/internal/ge25519"
	"github.com/oasisprotocol/ed25519/internal/modm"
)

// ---------------------------------------------------------------------------
// C03: every signature the library produces verifies.  Composition of the real Sign / NewKeyFromSeed / verify
// code with the cut callees *interpreted* in the cyclic group Z/8L (E(F_p) is cyclic of order 8L, B = 8 g has
// order L: trusted mathematics): scalars are integers mod L, points are integer multiples of g.  Encoding and
// decoding are linked by dec(enc(P)) = P for the two points the signer encodes (C10).

const vL8 = "57896044618658097711785492504343953926856930875039260848015607506283634007912" // 8 L

var (
	vEncPts [4]vZ      // points that were encoded, in order
	vEncBuf [4][32]byte // their encodings (fresh bytes)
	vEncN   int
)

// scalars are named by fresh integer symbols (one per distinct input, so that the verifier's recomputation of a
// hash value meets the signer's symbol again) and reductions mod L are written with explicit quotients: the
// composition then is linear in the symbols, their products and the quotients
var (
	vExpIn, vExpSym [12]vZ
	vExpN           int
)

func vFreshScalarSym(prefix string) vZ {
	e := vZfreshAuto(prefix)
	vAssume(vZi(0).Le(e))
	vAssume(e.Lt(vZc(vOrderL)))
	return e
}

func vFreshQuot(prefix string) vZ {
	k := vZfreshAuto(prefix)
	vAssume(vZi(0).Le(k))
	return k
}

func vc3_Expand(out *modm.Bignum256, in []byte) {
	vAssert(len(in) == 32 || len(in) == 64, "Expand length")
	v := vZle(in)
	for k := 0; k < vExpN; k++ {
		if vZsame(vExpIn[k], v) {
			vPut(out, vExpSym[k])
			return
		}
	}
	e := vFreshScalarSym("sc")
	vAssume(v.Eq(vFreshQuot("qe").Mul(vZc(vOrderL)).Add(e))) // e == v mod L
	vExpIn[vExpN], vExpSym[vExpN] = v, e
	vExpN++
	vPut(out, e)
}
func vc3_Mul(r, x, y *modm.Bignum256) {
	m := vFreshScalarSym("mul")
	vAssume(vGetZ(x).Mul(vGetZ(y)).Eq(vFreshQuot("qm").Mul(vZc(vOrderL)).Add(m)))
	vPut(r, m)
}
func vc3_Add(r, x, y *modm.Bignum256) {
	m := vFreshScalarSym("add")
	vAssume(vGetZ(x).Add(vGetZ(y)).Eq(vFreshQuot("qa").Mul(vZc(vOrderL)).Add(m)))
	vPut(r, m)
}
func vc3_Contract(out []byte, in *modm.Bignum256) {
	copy(out[:32], vZbytes(vGetZ(in), 32))
}
func vc3_BaseMul(r *ge25519.Ge25519, table *[256][96]byte, s *modm.Bignum256) {
	vPut(r, vGetZ(s).Mul(vZi(8)))
}
func vc3_Pack(out []byte, p *ge25519.Ge25519) {
	k := vEncN
	vEncN++
	vEncPts[k] = vGetZ(p)
	b := vBytes("enc"+vItoa(k)+"_", 32)
	copy(vEncBuf[k][:], b)
	copy(out[:32], b)
}

// UnpackNegativeVartime(b): -P when b is the recorded encoding of P, +P when b is that encoding with the sign
// bit flipped (which is how UnpackVartime calls it); only those two cases occur for honest signatures
func vc3_UnpackNegativeVartime(r *ge25519.Ge25519, p []byte) bool {
	_ = p[31]
	for k := 0; k < vEncN; k++ {
		same, flipped := true, true
		for i := 0; i < 32; i++ {
			same = same && p[i] == vEncBuf[k][i]
			if i == 31 {
				flipped = flipped && p[i] == vEncBuf[k][i]^0x80
			} else {
				flipped = flipped && p[i] == vEncBuf[k][i]
			}
		}
		if same {
			vPut(r, vEncPts[k].Neg())
			return true
		}
		if flipped {
			vPut(r, vEncPts[k])
			return true
		}
	}
	vAssert(false, "decoder called on bytes that are not an encoding produced by the signer")
	return false
}
func vc3_CofactorMultiply(r, p *ge25519.Ge25519) { vPut(r, vGetZ(p).Mul(vZi(8))) }
func vc3_IsNeutral(q *ge25519.Ge25519) bool      { return vGetZ(q).Mod(vZc(vL8)).Eq(vZi(0)) }
func vc3_P2E(r, p *ge25519.Ge25519)              { vPut(r, vGetZ(p)) }
func vc3_DSM(r, p1 *ge25519.Ge25519, s1, s2 *modm.Bignum256) {
	vPut(r, vGetZ(s1).Mul(vGetZ(p1)).Add(vGetZ(s2).Mul(vZi(8))))
}
func vc3_CofactorEqual(p, q *ge25519.Ge25519) bool {
	return vGetZ(p).Sub(vGetZ(q)).Mul(vZi(8)).Mod(vZc(vL8)).Eq(vZi(0))
}

func vCut3() {
	vReplace(modm.Expand, vc3_Expand)
	vReplace(modm.Mul, vc3_Mul)
	vReplace(modm.Add, vc3_Add)
	vReplace(modm.Contract, vc3_Contract)
	vReplace(ge25519.ScalarmultBaseNiels, vc3_BaseMul)
	vReplace(ge25519.Pack, vc3_Pack)
	vReplace(ge25519.UnpackNegativeVartime, vc3_UnpackNegativeVartime)
	vReplace(ge25519.CofactorMultiply, vc3_CofactorMultiply)
	vReplace(ge25519.IsNeutralVartime, vc3_IsNeutral)
	vReplace(ge25519.ProjectiveToExtended, vc3_P2E)
	vReplace(ge25519.DoubleScalarmultVartime, vc3_DSM)
	vReplace(ge25519.CofactorEqual, vc3_CofactorEqual)
}

// sign with a key derived from an arbitrary seed, then verify in default and ZIP-215 mode.
// variant: 0 pure, 1 ctx, 2 ph
func vh_C03_sign_then_verify() {
	if vTier() < 2 {
		// not registered in any tier: the solvers return unknown on this monolithic composition (400 s, all back
		// ends), and only bounds that run clean on the unchanged tree are registered.  Both tiers prove the
		// composition in pieces (below).  Kept for experiments: run with a tier value of 2.
		return
	}
	vCut3()
	variant := vCase(0, 2)
	seed := vBytes("seed", 32)
	priv := NewKeyFromSeed(seed)
	pub := priv.Public().(PublicKey)
	var msg []byte
	opts := &Options{}
	switch variant {
	case 0:
		msg = vBlob("M")
	case 1:
		msg = vBlob("M")
		opts.Context = "verif-ctx"
	case 2:
		msg = vBytes("digest", 64)
		opts.Context = "verif-ctx"
		opts.Hash = 7 // crypto.SHA512
	}
	sig, err := priv.Sign(nil, msg, opts)
	vAssert(vIsNilErr(err) && len(sig) == 64, "signing succeeds")
	// the excluded case: nonce r == 0 (mod L) (needs a SHA-512 preimage); vEncPts[1] = 8 r is then the identity
	vAssume(!vEncPts[1].Mod(vZc(vL8)).Eq(vZi(0)))
	vReach("signature produced")
	vAssert(vLEult(sig[32:], vOrderL), "S < L")
	vAssert(!isSmallOrderVartime(pub), "the public key is not of small order")
	vAssert(!isSmallOrderVartime(sig[:32]), "R is not of small order")
	opts.ZIP215Verify = false
	vAssert(VerifyWithOptions(pub, msg, sig, opts), "the signature verifies in default mode")
	opts.ZIP215Verify = true
	vAssert(VerifyWithOptions(pub, msg, sig, opts), "the signature verifies in ZIP-215 mode")
	if variant == 0 {
		vAssert(Verify(pub, msg, sig), "Verify accepts the signature")
	}
}

// ---------------------------------------------------------------------------
// The same composition in pieces (quick tier).  C02 shows that Sign / NewKeyFromSeed compute
// A = enc([a]B), R = enc([r]B), S = (r + h a) mod L with a the clamped scalar, and C01 / C05 / C06 show that the
// verifiers accept exactly the documented predicate.  What remains is arithmetic in Z/8L (B = 8 g of order L):

// (1) the group equation holds: 8 (S B - h A - R) = 0 for S = (r + h a) mod L, A = a B, R = r B
func vh_C03_lemma_group_equation() {
	L, L8 := vZc(vOrderL), vZc(vL8)
	a, r, h, S := vZfresh("a"), vZfresh("r"), vZfresh("h"), vZfresh("S")
	ha := vZfresh("ha") // the product h*a as an opaque integer: the claim is linear in it
	z := vZi(0)
	vAssume(z.Le(S) && S.Lt(L) && S.Sub(r.Add(ha)).Mod(L).Eq(z))
	_ = a
	_ = h
	A8h := ha.Mul(vZi(8)) // h * (a * 8 g)
	lhs := S.Mul(vZi(8)).Sub(A8h).Sub(r.Mul(vZi(8))).Mul(vZi(8))
	vReach("an honest signature")
	vAssert(lhs.Mod(L8).Eq(z), "8 (S B - h A - R) == 0 in Z/8L")
	vAssert(S.Lt(L), "S is canonical")
}

// (2) the public key is not of small order: a clamped scalar is never 0 mod L
func vh_C03_lemma_clamped_scalar_nonzero() {
	b := vBytes("h", 32)
	c := make([]byte, 32)
	copy(c, b)
	c[0] &= 248
	c[31] &= 127
	c[31] |= 64
	a := vZle(c)
	L := vZc(vOrderL)
	vReach("a clamped scalar")
	vAssert(!a.Mod(L).Eq(vZi(0)), "clamp(h) mod L != 0, hence [8][a]B != O")
	vAssert(vZi(1).Shl(254).Le(a) && a.Lt(vZi(1).Shl(255)) && a.Mod(vZi(8)).Eq(vZi(0)), "clamp(h) in [2^254, 2^255), multiple of 8")
}

// (3) R = [r]B is of small order exactly when r == 0 mod L (the excluded case)
func vh_C03_lemma_R_small_order() {
	L, L8 := vZc(vOrderL), vZc(vL8)
	r := vZfresh("r")
	vAssume(vZi(0).Le(r) && r.Lt(L))
	vReach("a reduced nonce")
	vAssert(r.Mul(vZi(64)).Mod(L8).Eq(vZi(0)) == r.Eq(vZi(0)), "[8][r]B == O <=> r == 0 (mod L)")
}

// (4) membership in a batch at any position: an all-valid batch is accepted entry by entry
// (vh_C17_valid_batch_no_fallback covers the chunked path; here a batch with a remainder)
func vh_C03_batch_membership() {
	n := 3
	vReplicate = 0
	switch vCase(0, 2) { // 3: remainder path only; 7: one chunk; 68: two chunks (first one replicated)
	case 1:
		n = 7
	case 2:
		n = 68
		vReplicate = 64
	}
	r := vBatchRun(n, -1, 0, 0)
	if !r.entropyOK {
		return
	}
	all := true
	for i := 0; i < n; i++ {
		all = all && vsVerifyPredicate(r.es[i].pk, r.es[i].msg, r.es[i].sig, 0, "", r.zip)
	}
	vAssume(all)
	vReach("an all-valid batch")
	ok := r.ok && len(r.valid) == n
	for i := 0; i < n; i++ {
		ok = ok && r.valid[i]
	}
	vAssert(ok, "every member of an all-valid batch is accepted")
}
