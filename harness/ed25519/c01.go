package ed25519

import "crypto"

var vSigLens = [...]int{64, 0, 1, 31, 32, 33, 63, 65, 80}

func vSigLen() int {
	if vTier() == 0 {
		return vSigLens[vCase(0, len(vSigLens)-1)]
	}
	return vCase(0, 80)
}

// C01: Verify (default options, pure Ed25519) == documented cofactored predicate,
// for all key/signature bytes, all messages (opaque, any length), signature lengths
// 0..80, and every interpretation of the cut callees.
func vh_C01_Verify_pure() {
	vCutVerify()
	n := vSigLen()
	vNote("signature length explored: quick {0,1,31,32,33,63,64,65,80}, thorough 0..80; key 32 bytes; message opaque of any length")
	pk := vBytes("pk", 32)
	sig := vBytes("sig", n)
	msg := vBlob("M")
	got := Verify(pk, msg, sig)
	want := vsVerifyPredicate(pk, msg, sig, 0, "", false)
	vReach("Verify returned")
	vAssert(got == want, "Verify == documented default predicate (pure)")
}

// C01/C05: VerifyWithOptions for the three variants, ZIP-215 flag symbolic.
// variant case: 0 pure (empty context, Hash 0), 1 ctx (1..255 bytes), 2 ph with context, 3 ph with empty context
func vVerifyWithOptionsCase(zipSym bool) (got, wantDefault, wantZip bool, zip bool) {
	vCutVerify()
	vPrune(true)
	variant := vCase(0, 3)
	n := vSigLen()
	pk := vBytes("pk", 32)
	sig := vBytes("sig", n)
	zip = vBool("zip215")
	opts := &Options{ZIP215Verify: zip}
	var msg []byte
	ctx := ""
	v := 0
	switch variant {
	case 0:
		msg = vBlob("M")
	case 1:
		msg = vBlob("M")
		ctx = vCtxString()
		v = 1
	case 2:
		msg = vBytes("digest", 64)
		ctx = vCtxString()
		opts.Hash = crypto.SHA512
		v = 2
	case 3:
		msg = vBytes("digest", 64)
		opts.Hash = crypto.SHA512
		v = 2
	}
	opts.Context = ctx
	got = VerifyWithOptions(pk, msg, sig, opts)
	wantDefault = vsVerifyPredicate(pk, msg, sig, v, ctx, false)
	wantZip = vsVerifyPredicate(pk, msg, sig, v, ctx, true)
	return
}

func vh_C01_VerifyWithOptions_default() {
	got, wantDefault, _, zip := vVerifyWithOptionsCase(true)
	vNote("variants: pure / ctx (context opaque, length 1..255) / ph with and without context (digest 64 bytes)")
	vAssume(!zip)
	vReach("VerifyWithOptions returned (default mode)")
	vAssert(got == wantDefault, "VerifyWithOptions(default) == documented default predicate")
}

// the same case split restricted to 64-byte signatures whose scalar half is >= L
func vVerifyWithOptionsCaseLen64() (got, wantDefault, wantZip bool, zip bool) {
	vCutVerify()
	vPrune(true)
	variant := vCase(0, 3)
	pk := vBytes("pk", 32)
	sig := vBytes("sig", 64)
	vAssume(!vLEult(sig[32:], vOrderL))
	zip = vBool("zip215")
	opts := &Options{ZIP215Verify: zip}
	var msg []byte
	ctx := ""
	v := 0
	switch variant {
	case 0:
		msg = vBlob("M")
	case 1:
		msg = vBlob("M")
		ctx = vCtxString()
		v = 1
	case 2:
		msg = vBytes("digest", 64)
		ctx = vCtxString()
		opts.Hash = crypto.SHA512
		v = 2
	case 3:
		msg = vBytes("digest", 64)
		opts.Hash = crypto.SHA512
		v = 2
	}
	opts.Context = ctx
	got = VerifyWithOptions(pk, msg, sig, opts)
	wantDefault = vsVerifyPredicate(pk, msg, sig, v, ctx, false)
	wantZip = vsVerifyPredicate(pk, msg, sig, v, ctx, true)
	return
}
