package ed25519

import (
	"github.com/oasisprotocol/ed25519/internal/ge25519"
	"github.com/oasisprotocol/ed25519/internal/modm"
)

// ---------------------------------------------------------------------------
// C17: ONE iteration of the Bos-Coster loop of multiScalarmultVartime, executed on the real code (heap
// operations, scalar comparisons and subtraction included) from an ARBITRARY state that satisfies the loop
// invariant, for every value of the loop variables (limbSize, extended).  Together with the base case (the
// invariant holds after heapBuild: vh_C17_heapInsertNext from the empty heap, limbSize = LimbSize-1,
// extended = false) this is an induction over the number of iterations; nothing is assumed about how many
// iterations there are.
//
// State: `count` = 5 entries; the first hs (3 before, 5 after the extension) are in the heap.
// Invariant I(limbSize, extended, heap):
//   A  heap.heap[0..hs) is a permutation of 0..hs-1 in heap order w.r.t. the scalars compared on limbs
//      0..limbSize
//   B  every inserted scalar has limbs < 2^BitsPerLimb and zero limbs above limbSize
//   C  not extended: the entries hs..count-1 (the 128-bit randomisers) are < 2^128
//   J  not extended and limbSize < LimbSize-1: the maximum is >= 2^127  ("the maximum at most halves per
//      iteration": this is what guarantees that limbSize still covers bit 127 when the 128-bit scalars are
//      inserted; it is re-established by every iteration that does not extend)
// Obligations after the iteration (continuing paths): I holds for the new loop variables; the weighted sum
// sum_k s_k P_k over all `count` entries is unchanged (points are formal generators: coefficient vectors);
// the integer sum of all scalars strictly decreases (termination).  On the exit path: the routine hands
// (P_max, s_max) to multiScalarmultVartimeFinal and every other inserted scalar is zero, so that
// [s_max] P_max (vh_C17_multiScalarmultVartimeFinal) equals the sum over the inserted entries.

const vStepCount = 5

func vvSet(p *ge25519.Ge25519, k int, v vZ) { vPutAt(p.X(), k, v) }
func vvGet(p *ge25519.Ge25519, k int) vZ    { return vGetZAt(p.X(), k) }

func vc_gAddVec(r, p, q *ge25519.Ge25519) {
	var t [vStepCount]vZ
	for k := 0; k < vStepCount; k++ {
		t[k] = vvGet(p, k).Add(vvGet(q, k))
	}
	for k := 0; k < vStepCount; k++ {
		vvSet(r, k, t[k])
	}
}

var vFinalCalls int
var vFinalVec [vStepCount]vZ
var vFinalScalar vZ

func vc_finalRecord(r, point *ge25519.Ge25519, scalar *modm.Bignum256) {
	vFinalCalls++
	for k := 0; k < vStepCount; k++ {
		vFinalVec[k] = vvGet(point, k)
	}
	vFinalScalar = vScalarVal(scalar)
}

func vPow2(k int) vZ { return vZi(1).Shl(k) }

// a < b as integers, limbs compared from the top (all limbs)
func vLimbsLess(a, b *modm.Bignum256) bool {
	lt := false
	for l := 0; l < modm.LimbSize; l++ {
		lt = a[l] < b[l] || (a[l] == b[l] && lt)
	}
	return lt
}

// I.A and I.B for the first n entries w.r.t. limbSize ls
func vAssertHeapInvariant(h *batchHeap, n, ls int, what string) {
	ok := true
	for k := 1; k < n; k++ {
		ok = ok && vHeapOrderAt(h, k, ls)
	}
	vAssert(ok, what+" I.A: heap order at every node for the current limbSize")
	vAssert(vIsPermutation(h, n), what+" I.A: heap is a permutation of the inserted entries")
	okB := true
	for i := 0; i < n; i++ {
		for l := 0; l < modm.LimbSize; l++ {
			okB = okB && h.scalars[i][l] < 1<<modm.BitsPerLimb
			if l > ls {
				okB = okB && h.scalars[i][l] == 0
			}
		}
	}
	vAssert(okB, what+" I.B: inserted scalars have zero limbs above limbSize, limbs in range")
}

// heapGetTop2 is wrapped: the first call of an iteration runs the real code; a second call happens only right
// after heapExtend.  There the state must satisfy I(limbSize, extended = true) for the full heap and the second
// maximum must be non-zero; the rest of that iteration (heapGetTop2, SubVartime, Add, heapUpdatedRoot: the
// same basic block as in every other iteration) is what the harness checks from an arbitrary state with
// extended = true, so the path ends here.
var vTop2Calls int
var vStepHeapN int

func vc_top2(heap *batchHeap, limbSize int) (heapIndex, heapIndex) {
	vTop2Calls++
	vRestore(heapGetTop2)
	m1, m2 := heapGetTop2(heap, limbSize)
	vReplace(heapGetTop2, vc_top2)
	if vTop2Calls == 2 {
		vAssert(heap.size == vStepCount, "after heapExtend all entries are in the heap")
		vAssert(limbSize >= 127/modm.BitsPerLimb, "the 128-bit scalars are inserted while limbSize still covers bit 127")
		if heap.size == vStepCount {
			vAssertHeapInvariant(heap, vStepCount, limbSize, "after heapExtend:")
			var zero modm.Bignum256
			vAssert(vLimbsLess(&zero, &heap.scalars[m2]), "after heapExtend the second maximum is non-zero (the iteration still makes progress)")
		}
		vAssume(false) // continued by the extended = true start states
	}
	return m1, m2
}

func vh_C17_bosCoster_step() {
	L := modm.LimbSize
	B := modm.BitsPerLimb
	limbSize := vCase(0, L-1)
	extended := vCase(0, 1) == 1
	count := vStepCount
	hs := 3
	if extended {
		hs = count
	}
	topLimb := 127 / B // the limb holding bit 127
	if !extended && limbSize < topLimb {
		// I is unsatisfiable here (J needs max >= 2^127, B needs zero limbs above limbSize): unreachable state
		vNote("states with limbSize below the limb of bit 127 before the extension contradict the invariant (J and B): nothing to check")
		return
	}
	vReplace(ge25519.Add, vc_gAddVec)
	vReplace(multiScalarmultVartimeFinal, vc_finalRecord)
	vReplace(heapGetTop2, vc_top2)
	vNote("one Bos-Coster iteration from an arbitrary invariant state: count = 5 (3 entries in the heap before, 5 after the extension), every limbSize, extended in {false, true}, three index permutations, all scalar values")

	var h batchHeap
	vFreshHeap(&h, hs, limbSize) // A (permutation), B
	for k := 1; k < hs; k++ {
		vAssume(vHeapOrderAt(&h, k, limbSize)) // A (order)
	}
	if !extended {
		for i := hs; i < count; i++ { // C
			for l := 0; l < L; l++ {
				if l*B < 128 {
					h.scalars[i][l] = vFreshLimb("z" + vItoa(i) + "_" + vItoa(l))
					if (l+1)*B <= 128 {
						vAssume(h.scalars[i][l] < 1<<modm.BitsPerLimb)
					} else {
						vAssume(h.scalars[i][l] < 1<<uint(128-l*B))
					}
				}
			}
		}
		if limbSize < L-1 { // J
			vAssume(!vScalarVal(&h.scalars[h.heap[0]]).Lt(vPow2(127)))
		}
	}
	var S [vStepCount]vZ
	var snap [vStepCount]modm.Bignum256
	for i := 0; i < count; i++ {
		S[i] = vScalarVal(&h.scalars[i])
		snap[i] = h.scalars[i]
		for k := 0; k < count; k++ {
			c := 0
			if i == k {
				c = 1
			}
			vvSet(&h.points[i], k, vZi(c))
		}
	}

	vReach("an invariant state")
	var res ge25519.Ge25519
	cont := vLoopStep(multiScalarmultVartime, 3, &res, &h, count, "limbSize", limbSize, "extended", extended)

	if cont == 0 {
		vAssert(vFinalCalls == 1, "on exit the remaining (point, scalar) pair is handed to multiScalarmultVartimeFinal")
		for k := 0; k < hs; k++ {
			c := vFinalVec[k]
			vAssert(c.Eq(vZi(0)) != c.Eq(vZi(1)), "exit: the final point is one of the original generators")
			vAssert(vZite(c.Eq(vZi(1)), vFinalScalar, vZi(0)).Eq(S[k]), "exit: every inserted scalar except the final one is zero, the final one is unchanged")
		}
		return
	}
	ls2 := vLoopOutInt("limbSize")
	ext2 := vLoopOutBool("extended")
	hs2 := h.size
	if ext2 {
		vAssert(hs2 == count, "extended => all entries are in the heap")
	} else {
		vAssert(hs2 == hs && !extended, "not extended => heap size unchanged")
	}
	vAssert(ls2 >= 0 && ls2 < L, "limbSize stays an index")
	if hs2 != count && hs2 != hs {
		return
	}
	vAssertHeapInvariant(&h, hs2, ls2, "after the iteration:")
	// C', J'
	if !ext2 {
		same := true
		for i := hs2; i < count; i++ {
			same = same && h.scalars[i] == snap[i]
		}
		vAssert(same, "I.C: entries not yet inserted are untouched")
		if ls2 < L-1 {
			vAssert(!vScalarVal(&h.scalars[h.heap[0]]).Lt(vPow2(127)), "I.J: not extended => the maximum is still >= 2^127")
		}
		vAssert(ls2 >= topLimb, "not extended => limbSize still covers bit 127")
	}
	// sum preservation, generator by generator
	for m := 0; m < count; m++ {
		acc := vZi(0)
		for k := 0; k < count; k++ {
			c := vvGet(&h.points[k], m)
			vAssert(c.Eq(vZi(0)) != c.Eq(vZi(1)), "coefficients stay 0 or 1 after one addition")
			acc = acc.Add(vZite(c.Eq(vZi(1)), vScalarVal(&h.scalars[k]), vZi(0)))
		}
		vAssert(acc.Eq(S[m]), "sum_k s_k P_k is unchanged (coefficient of generator m)")
	}
	// termination: no scalar grows and one strictly shrinks, so the integer sum of all scalars decreases
	none, some := true, false
	for k := 0; k < count; k++ {
		grew := vLimbsLess(&snap[k], &h.scalars[k])
		shrank := vLimbsLess(&h.scalars[k], &snap[k])
		none = none && !grew
		some = some || shrank
	}
	vAssert(none, "termination: no scalar grows")
	vAssert(some, "termination: one scalar strictly shrinks")
}

// base case of the induction: after heapBuild the invariant holds with limbSize = LimbSize-1, extended = false
// (A: vh_C17_heapInsertNext inductively from the empty heap; B: limbs of expanded scalars are in range, checked
// by C19; J: vacuous for limbSize = LimbSize-1).  Here: heapBuild(3) on arbitrary scalars yields a heap.
func vh_C17_heapBuild_base() {
	var h batchHeap
	for i := 0; i < 3; i++ {
		for l := 0; l < modm.LimbSize; l++ {
			h.scalars[i][l] = vFreshLimb("s" + vItoa(i) + "_" + vItoa(l))
			vAssume(h.scalars[i][l] < 1<<modm.BitsPerLimb)
		}
	}
	heapBuild(&h, 3)
	vReach("heapBuild returned")
	vAssert(h.size == 3 && vIsPermutation(&h, 3), "heapBuild: size and permutation")
	vAssert(vHeapOrderAt(&h, 1, modm.LimbSize-1) && vHeapOrderAt(&h, 2, modm.LimbSize-1), "heapBuild: heap order on all limbs")
}
