package ed25519

// C09 (concrete directions): the real small-order test run on the complete finite set of torsion encodings
// (all 14 must be refused) and on mixed-order points [k]B + T (never refused), all branches concrete.
func vh_C09_api_torsion_encodings() {
	vAssert(len(vTorsionEncodings) == 14, "14 encodings of the eight torsion points")
	for i := range vTorsionEncodings {
		e := vTorsionEncodings[i]
		vAssert(isSmallOrderVartime(e[:]), "torsion encoding is refused on small-order grounds")
	}
}

func vh_C09_api_mixed_order_points() {
	for i := range vMixedOrderEncodings {
		e := vMixedOrderEncodings[i]
		vAssert(!isSmallOrderVartime(e[:]), "a point with a prime-order component is never refused on small-order grounds")
	}
}

func vh_C09_api_undecodable() {
	// y = 2 is not on the curve
	var e [32]byte
	e[0] = 2
	vAssert(isSmallOrderVartime(e[:]), "an undecodable string is refused")
}
