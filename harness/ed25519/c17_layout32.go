// +build 386 force32bit
// +build !force64bit

package ed25519

import (
	"github.com/oasisprotocol/ed25519/internal/ge25519"
	"github.com/oasisprotocol/ed25519/internal/modm"
)

func vFreshLimb(name string) modm.Element { return modm.Element(vU32(name)) }

// every limb of the point becomes a fresh unconstrained value
func vClobberPoint(p *ge25519.Ge25519, name string) {
	for i := range p.X() {
		p.X()[i] = vU32(name + "x" + vItoa(i))
		p.Y()[i] = vU32(name + "y" + vItoa(i))
		p.Z()[i] = vU32(name + "z" + vItoa(i))
	}
}
