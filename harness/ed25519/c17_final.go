package ed25519

import (
	"github.com/oasisprotocol/ed25519/internal/ge25519"
	"github.com/oasisprotocol/ed25519/internal/modm"
)

// D_GE contracts for the two group operations used by the multi-scalar multiplication (their meaning on the
// real field code is vh_C16_Add / vh_C16_Double): a point is an integer multiple of one generator, kept in
// cell 0 of the X coordinate
func vgId(p *ge25519.Ge25519) vZ     { return vGetZ(p.X()) }
func vgSet(p *ge25519.Ge25519, v vZ) { vPut(p.X(), v) }
func vc_gAdd(r, p, q *ge25519.Ge25519) { vgSet(r, vgId(p).Add(vgId(q))) }
func vc_gDouble(r, p *ge25519.Ge25519) { vgSet(r, vgId(p).Mul(vZi(2))) }

func vScalarVal(s *modm.Bignum256) vZ {
	v := vZi(0)
	for i := 0; i < modm.LimbSize; i++ {
		v = v.Add(vZu(uint64(s[i])).Shl(modm.BitsPerLimb * i))
	}
	return v
}

// C17: the final double-and-add of the Bos-Coster loop returns [s]P for every remaining scalar s.
// s = v * 2^shift with v a symbolic value of `bits` bits; shift moves it across limb boundaries.  Special
// cases s = 0 and s = 1 are part of the range.
var vFinalShifts = [...]int{0, 1, modm.BitsPerLimb - 3, modm.BitsPerLimb, 2*modm.BitsPerLimb - 5, 120}

func vh_C17_multiScalarmultVartimeFinal() {
	vReplace(ge25519.Add, vc_gAdd)
	vReplace(ge25519.Double, vc_gDouble)
	vPrune(true)
	bits := 6
	if vTier() == 1 {
		bits = 10
	}
	shift := vFinalShifts[vCase(0, len(vFinalShifts)-1)]
	vNote("final double-and-add: scalar = v * 2^shift, v symbolic of 6 (quick) / 10 (thorough) bits, shift in {0, 1, B-3, B, 2B-5, 120}")
	v := uint64(vU32("v")) & (1<<uint(bits) - 1)
	vAssume(v >= 1)
	var s modm.Bignum256
	// place v * 2^shift into the limbs
	limb, off := shift/modm.BitsPerLimb, uint(shift%modm.BitsPerLimb)
	lo := (v << off) & (1<<modm.BitsPerLimb - 1)
	hi := (v << off) >> modm.BitsPerLimb
	s[limb] = modm.Element(lo)
	s[limb+1] = modm.Element(hi)
	var p, r ge25519.Ge25519
	g := vZfresh("P")
	vgSet(&p, g)
	// the identity result of the zero case is written as concrete coordinates (0 : 1 : 1 : 0)
	multiScalarmultVartimeFinal(&r, &p, &s)
	vReach("multiScalarmultVartimeFinal returned")
	vAssert(vgId(&r).Eq(g.Mul(vScalarVal(&s))), "multiScalarmultVartimeFinal(P, s) = [s]P")
}

// the zero scalar yields the neutral element (0 : 1 : 1 : 0) written limb by limb
func vh_C17_multiScalarmultVartimeFinal_zero() {
	var s modm.Bignum256
	var p, r ge25519.Ge25519
	p.X()[0], p.Y()[0], p.Z()[0] = 5, 7, 9
	multiScalarmultVartimeFinal(&r, &p, &s)
	ok := r.X()[0] == 0 && r.Y()[0] == 1 && r.Z()[0] == 1
	for i := 1; i < len(r.X()); i++ {
		ok = ok && r.X()[i] == 0 && r.Y()[i] == 0 && r.Z()[i] == 0
	}
	vAssert(ok, "s = 0: the neutral element (0 : 1 : 1)")
}
