package ed25519

import "crypto"

// RFC 8032 5.1.5 over the cut symbols: private key = seed || enc([clamp(H(seed)[:32])]B)
func vsClampedScalar(h []byte) vSc {
	c := make([]byte, 32)
	copy(c, h[:32])
	c[0] &= 248
	c[31] &= 127
	c[31] |= 64
	return vUFSc("redL32", c)
}

func vsPublicKey(seed []byte) []byte {
	h := vHash(vSeqOf(seed))
	return vUFBytes("enc", 32, vUFPt("bmul", vsClampedScalar(h)))
}

// RFC 8032 5.1.6 over the cut symbols.  variant: 0 pure, 1 ctx, 2 ph.  priv = seed || A (A taken as stored).
func vsSign(priv, msg []byte, variant int, ctx string) []byte {
	seed, A := priv[:32], priv[32:64]
	h := vHash(vSeqOf(seed))
	a := vsClampedScalar(h)
	prefix := h[32:64]
	dom := vSeqOf(nil)
	switch variant {
	case 1:
		dom = vsDom2(0, len(ctx), vSeqStr(ctx))
	case 2:
		dom = vsDom2(1, len(ctx), vSeqStr(ctx))
	}
	r := vUFSc("redL64", vHash(dom.Cat(vSeqOf(prefix)).Cat(vSeqOf(msg))))
	R := vUFBytes("enc", 32, vUFPt("bmul", r))
	k := vUFSc("redL64", vHash(dom.Cat(vSeqOf(R)).Cat(vSeqOf(A)).Cat(vSeqOf(msg))))
	S := vUFBytes("scBytes", 32, vUFSc("addL", vUFSc("mulL", k, a), r))
	out := make([]byte, 64)
	copy(out, R)
	copy(out[32:], S)
	return out
}

func vBytesEq(a, b []byte) bool {
	if len(a) != len(b) {
		return false
	}
	eq := true
	for i := range a {
		eq = eq && a[i] == b[i]
	}
	return eq
}

// C02: NewKeyFromSeed is RFC 8032 5.1.5 for every 32-byte seed.
func vh_C02_NewKeyFromSeed() {
	vCutSign()
	seed := vBytes("seed", 32)
	k := NewKeyFromSeed(seed)
	vReach("NewKeyFromSeed returned")
	vAssert(len(k) == 64, "private key is 64 bytes")
	vAssert(vBytesEq(k[:32], seed), "private key starts with the seed")
	vAssert(vBytesEq(k[32:], vsPublicKey(seed)), "public half = enc([clamp(H(seed)[:32])]B)")
}

// C02: Sign (pure) is RFC 8032 5.1.6 for every private key and message.
func vh_C02_Sign_pure() {
	vCutSign()
	priv := vBytes("priv", 64)
	msg := vBlob("M")
	sig := Sign(priv, msg)
	vReach("Sign returned")
	vAssert(vBytesEq(sig, vsSign(priv, msg, 0, "")), "Sign == RFC 8032 5.1.6 (pure)")
}

// C02: PrivateKey.Sign for every way of passing options; the entropy argument is never read.
// option case: 0 crypto.Hash(0), 1 crypto.SHA512, 2 *Options{} (pure), 3 *Options{ctx}, 4 *Options{SHA512, ctx}, 5 *Options{SHA512}
func vh_C02_PrivateKeySign() {
	vCutSign()
	vPrune(true)
	oc := vCase(0, 5)
	rd := vCase(0, 1)
	vNote("options: crypto.Hash(0), crypto.SHA512, *Options pure/ctx/ph/ph-without-context; context opaque with length 1..255; entropy argument nil or a recording reader")
	priv := vBytes("priv", 64)
	var opts crypto.SignerOpts
	var msg []byte
	ctx := ""
	variant := 0
	switch oc {
	case 0:
		opts = crypto.Hash(0)
		msg = vBlob("M")
	case 1:
		opts = crypto.SHA512
		msg = vBytes("digest", 64)
		variant = 2
	case 2:
		opts = &Options{}
		msg = vBlob("M")
	case 3:
		ctx = vCtxString()
		opts = &Options{Context: ctx}
		msg = vBlob("M")
		variant = 1
	case 4:
		ctx = vCtxString()
		opts = &Options{Hash: crypto.SHA512, Context: ctx}
		msg = vBytes("digest", 64)
		variant = 2
	case 5:
		opts = &Options{Hash: crypto.SHA512}
		msg = vBytes("digest", 64)
		variant = 2
	}
	var sig []byte
	var err error
	if rd == 0 {
		sig, err = PrivateKey(priv).Sign(nil, msg, opts)
	} else {
		sig, err = PrivateKey(priv).Sign(vReader("entropy"), msg, opts)
	}
	vReach("PrivateKey.Sign returned")
	vAssert(vIsNilErr(err), "no error for an admissible option set")
	vAssert(vReaderCalls() == 0, "the entropy argument is never read")
	vAssert(vBytesEq(sig, vsSign(priv, msg, variant, ctx)), "PrivateKey.Sign == RFC 8032 5.1.6 for the selected variant")
}

// C02: GenerateKey = one 32-byte read + NewKeyFromSeed (byte-exact RFC key derivation on the bytes read)
func vh_C02_GenerateKey() {
	vCutSign()
	pub, priv, err := GenerateKey(vReader("entropy"))
	vReach("GenerateKey returned")
	vAssert(vReaderCalls() == 1 && vReaderCallSize(0) == 32 && vReaderCallIsReadFull(0), "exactly one 32-byte io.ReadFull")
	if vReaderFailed(0) {
		vAssert(!vIsNilErr(err) && pub == nil && priv == nil, "reader error => (nil, nil, err)")
	} else {
		seed := vReaderBytes(0)
		vAssert(vIsNilErr(err), "no error")
		vAssert(len(priv) == 64 && len(pub) == 32, "lengths")
		vAssert(vBytesEq(priv[:32], seed) && vBytesEq(priv[32:], vsPublicKey(seed)) && vBytesEq(pub, vsPublicKey(seed)), "key pair derived from the bytes read")
	}
}
