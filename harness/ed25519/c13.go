package ed25519

import "crypto"

var vKeyLens = [...]int{32, 0, 31, 33, 64}
var vPrivLens = [...]int{64, 0, 32, 63, 65}

// C13: Verify panics exactly for a wrong-length public key; signatures and messages of any length and
// content (nil included, spare capacity included) give an ordinary result; no caller slice is written.
func vh_C13_Verify() {
	vCutVerify()
	kl := vKeyLens[vCase(0, len(vKeyLens)-1)]
	sl := vCase(-1, 8)
	var sig []byte
	if sl >= 0 {
		sig = vBytesCap("sig", vSigLens[sl], vSigLens[sl]+72)
	}
	pk := vBytesCap("pk", kl, kl+40)
	msg := vBlob("M")
	p := vCatch(func() { Verify(pk, msg, sig) })
	vReach("Verify returned or panicked")
	vAssert(p == (kl != 32), "Verify panics exactly when the public key is not 32 bytes")
}

// VerifyWithOptions: panic <=> documented condition (key length, context length, digest length, hash selector)
func vh_C13_VerifyWithOptions() {
	vCutVerify()
	kl := vKeyLens[vCase(0, len(vKeyLens)-1)]
	sl := vSigLens[vCase(0, len(vSigLens)-1)]
	ml := vDigestLens[vCase(0, 2)]
	pk := vBytesCap("pk", kl, kl+1)
	sig := vBytesCap("sig", sl, sl+2)
	msg := vBytesCap("msg", ml, ml+2)
	ctx := vBlobString("ctx")
	hsel := vInt("hash")
	zip := vBool("zip215")
	p := vCatch(func() { VerifyWithOptions(pk, msg, sig, &Options{Hash: crypto.Hash(hsel), Context: ctx, ZIP215Verify: zip}) })
	documented := kl != 32 || len(ctx) > 255 || (hsel == int(crypto.SHA512) && ml != 64) || (hsel != 0 && hsel != int(crypto.SHA512))
	vReach("VerifyWithOptions returned or panicked")
	vAssert(p == documented, "VerifyWithOptions panics exactly under the documented conditions")
}

// Sign / PrivateKey.Sign: panic exactly for a wrong-length private key
func vh_C13_Sign() {
	vCutSign()
	pl := vPrivLens[vCase(0, len(vPrivLens)-1)]
	priv := vBytesCap("priv", pl, pl+72)
	msg := vBlob("M")
	p := vCatch(func() { Sign(priv, msg) })
	vReach("Sign returned or panicked")
	vAssert(p == (pl != 64), "Sign panics exactly when the private key is not 64 bytes")
}

func vh_C13_PrivateKeySign() {
	vCutSign()
	pl := vPrivLens[vCase(0, len(vPrivLens)-1)]
	ml := vDigestLens[vCase(0, 2)]
	priv := vBytesCap("priv", pl, pl+72)
	msg := vBytesCap("msg", ml, ml+1)
	ctx := vBlobString("ctx")
	hsel := vInt("hash")
	refused := len(ctx) > 255 || (hsel == int(crypto.SHA512) && ml != 64) || (hsel != 0 && hsel != int(crypto.SHA512))
	var err error
	p := vCatch(func() { _, err = PrivateKey(priv).Sign(nil, msg, &Options{Hash: crypto.Hash(hsel), Context: ctx}) })
	vReach("PrivateKey.Sign returned or panicked")
	vAssert(p == (pl != 64 && !refused), "PrivateKey.Sign panics exactly for a wrong-length key (option errors are returned first)")
	if !p {
		vAssert(vIsNilErr(err) == !refused, "option refusals surface as errors")
	}
}

func vh_C13_NewKeyFromSeed() {
	vCutSign()
	sl := vKeyLens[vCase(0, len(vKeyLens)-1)]
	seed := vBytesCap("seed", sl, sl+48)
	p := vCatch(func() { NewKeyFromSeed(seed) })
	vReach("NewKeyFromSeed returned or panicked")
	vAssert(p == (sl != 32), "NewKeyFromSeed panics exactly when the seed is not 32 bytes")
}

func vh_C13_nil_inputs() {
	vCutVerify()
	pk := vBytes("pk", 32)
	p := vCatch(func() { Verify(pk, nil, nil) })
	vAssert(!p, "nil message and signature are ordinary inputs")
	p2 := vCatch(func() { Verify(nil, nil, nil) })
	vAssert(p2, "nil public key has the wrong length")
	p3 := vCatch(func() { VerifyWithOptions(pk, nil, vNilBytes(), &Options{}) })
	vAssert(!p3, "nil inputs with options")
}
