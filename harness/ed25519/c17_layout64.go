// +build amd64 force64bit
// +build !force32bit

package ed25519

import (
	"github.com/oasisprotocol/ed25519/internal/ge25519"
	"github.com/oasisprotocol/ed25519/internal/modm"
)

func vFreshLimb(name string) modm.Element { return modm.Element(vU64(name)) }

// every limb of the point becomes a fresh unconstrained value
func vClobberPoint(p *ge25519.Ge25519, name string) {
	for i := range p.X() {
		p.X()[i] = vU64(name + "x" + vItoa(i))
		p.Y()[i] = vU64(name + "y" + vItoa(i))
		p.Z()[i] = vU64(name + "z" + vItoa(i))
	}
}
