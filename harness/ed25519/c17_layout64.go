// +build !force32bit

package ed25519

import "github.com/oasisprotocol/ed25519/internal/modm"

func vFreshLimb(name string) modm.Element { return modm.Element(vU64(name)) }
