package ed25519

import (
	"crypto"

	"github.com/oasisprotocol/ed25519/internal/modm"
)

// C04 (batch): an entry whose scalar half is >= L reports false in default and ZIP-215 mode, at any position
// of a chunk and in the single-verification remainder.
func vh_C04_batch_rejects_S_ge_L() {
	n := 3 + vCase(0, 3) // 3 (remainder path), 4, 5 (batch path), 68 (second chunk on the batch path)
	vReplicate = 0
	if n == 6 {
		n = 68
		vReplicate = 64
	}
	j := vCase(0, 2)
	pos := 0
	switch j {
	case 1:
		pos = n / 2
	case 2:
		pos = n - 1
	}
	if n == 68 && pos < 64 {
		pos = 66
	}
	r := vBatchRun(n, -1, 0, 0)
	if !r.entropyOK {
		return
	}
	vAssume(!vLEult(r.es[pos].sig[32:], vOrderL))
	vReach("batch with S >= L at one position")
	vAssert(!r.panicked && vIsNilErr(r.err) && len(r.valid) == n, "ordinary result")
	vAssert(!r.valid[pos] && !r.ok, "entry with S >= L reports false")
	if n == 68 {
		// and nobody else is blamed for it: the replicated first chunk reports its own verdict
		vAssert(r.valid[pos-64] == vsVerifyPredicate(r.es[pos-64].pk, r.es[pos-64].msg, r.es[pos-64].sig, 0, "", r.zip), "the entry 64 positions earlier keeps its own verdict")
	}
}

// C05 (batch): with the ZIP-215 flag set the small-order exclusion is not applied, without it it is.
func vh_C05_batch_flag_gates_small_order() {
	n := 4
	r := vBatchRun(n, -1, 0, 0)
	if !r.entropyOK {
		return
	}
	vReach("batch of 4")
	for i := 0; i < n; i++ {
		vAssert(r.valid[i] == vsVerifyPredicate(r.es[i].pk, r.es[i].msg, r.es[i].sig, 0, "", r.zip), "entry verdict == predicate selected by the flag")
		if !r.zip {
			vAssert(!r.valid[i] || (!vsSmall(r.es[i].pk) && !vsSmall(r.es[i].sig[:32])), "default mode excludes small-order key / R")
		}
	}
}

// C07 (batch): over-long context => error; unsupported hash selector => every entry false and no error.
func vh_C07_batch_refusals() {
	vCutBatch()
	which := vCase(0, 1)
	n := 3 + vCase(0, 2)
	es := vBatchEntries(n, -1, 0, 0)
	pks := make([]PublicKey, n)
	msgs := make([][]byte, n)
	sigs := make([][]byte, n)
	for i := range es {
		pks[i], msgs[i], sigs[i] = es[i].pk, es[i].msg, es[i].sig
	}
	var ok bool
	var valid []bool
	var err error
	switch which {
	case 0:
		ctx := vBlobString("ctx")
		p := vCatch(func() { ok, valid, err = VerifyBatch(vReader("entropy"), pks, msgs, sigs, &Options{Context: ctx}) })
		vAssert(!p, "no panic")
		if len(ctx) > 255 {
			vReach("over-long context")
			vAssert(!vIsNilErr(err) && !ok && valid == nil, "over-long context => error and no results")
		}
	case 1:
		hsel := vInt("hash")
		vAssume(hsel != 0 && hsel != int(crypto.SHA512))
		p := vCatch(func() { ok, valid, err = VerifyBatch(vReader("entropy"), pks, msgs, sigs, &Options{Hash: crypto.Hash(hsel)}) })
		vReach("unsupported hash selector")
		vAssert(!p, "no panic")
		failed := false
		for k := 0; k < vReaderCalls(); k++ {
			failed = failed || vReaderFailed(k)
		}
		if !failed {
			vAssert(vIsNilErr(err) && !ok && len(valid) == n, "unsupported hash => no error, summary false")
			for i := 0; i < n; i++ {
				vAssert(!valid[i], "unsupported hash => every entry false")
			}
		}
	}
}

// C13 (batch): mismatched argument counts => error (never a panic), for nil and short slices.
func vh_C13_batch_argument_counts() {
	vCutBatch()
	n := 4
	es := vBatchEntries(n, -1, 0, 0)
	pks := make([]PublicKey, n)
	msgs := make([][]byte, n)
	sigs := make([][]byte, n)
	for i := range es {
		pks[i], msgs[i], sigs[i] = es[i].pk, es[i].msg, es[i].sig
	}
	a, b, c := vCase(0, 2), vCase(0, 2), vCase(0, 2)
	cut := func(k, n int) int {
		switch k {
		case 1:
			return n - 1
		case 2:
			return 0
		}
		return n
	}
	na, nb, nc := cut(a, n), cut(b, n), cut(c, n)
	var ok bool
	var valid []bool
	var err error
	p := vCatch(func() { ok, valid, err = VerifyBatch(vReader("entropy"), pks[:na], msgs[:nb], sigs[:nc], &Options{}) })
	vAssert(!p, "VerifyBatch never panics on mismatched counts")
	if na != nb || nb != nc {
		vAssert(!vIsNilErr(err) && !ok && valid == nil, "mismatched counts => error")
	}
	p2 := vCatch(func() { ok, valid, err = VerifyBatch(vReader("entropy2"), nil, nil, nil, &Options{}) })
	vAssert(!p2 && vIsNilErr(err) && ok && len(valid) == 0, "empty batch: no error, vacuously true, no entries")
}

// C13 (batch): malformed entries of every kind (short / long / nil key, short / long / nil signature) at the
// first, middle or last position never make VerifyBatch panic and never produce an error; the entry reports
// false.  n = 2 exercises the one-by-one remainder path, n = 5 the batch path with its fallback.
func vh_C13_batch_malformed_entries() {
	n := 2 + 3*vCase(0, 2)
	vReplicate = 0
	if n == 8 {
		// a second chunk on the batched path (offset 64): the first chunk is one symbolic entry replicated
		n = 68
		vReplicate = 64
	}
	kind := vCase(1, 7)
	pos := 0
	switch vCase(0, 2) {
	case 1:
		pos = n / 2
	case 2:
		pos = n - 1
	}
	if n == 68 && pos < 64 {
		pos = 65 // inside the second chunk
	}
	r := vBatchRun(n, pos, kind, 0)
	vAssert(!r.panicked, "VerifyBatch never panics on a malformed entry")
	if !r.entropyOK {
		return
	}
	vAssert(vIsNilErr(r.err) && len(r.valid) == n, "malformed entries are not an error")
	vAssert(!r.valid[pos] && !r.ok, "the malformed entry reports false")
}

// C07 (batch): Ed25519ph with the EMPTY context still hashes dom2 (flag 1, length 0) on the batch path, exactly as
// single verification does: a plain Ed25519 signature over a 64-byte message is not accepted as Ed25519ph
func vh_C07_batch_ph_empty_context() {
	n := 4 + vCase(0, 1)
	vReplicate = 0
	r := vBatchRun(n, -1, 0, 3)
	if !r.entropyOK {
		return
	}
	vReach("batch verified")
	for i := 0; i < n; i++ {
		vAssert(r.valid[i] == vsVerifyPredicate(r.es[i].pk, r.es[i].msg, r.es[i].sig, 2, "", r.zip), "entry verdict == Ed25519ph predicate with the empty context")
	}
}

// C09 (batch call sites): in default mode VerifyBatch applies the small-order exclusion to the key and the R of
// the entry being examined, in every chunk (n = 68: second chunk with the first one replicated), exactly as the
// single verifier does; with ZIP-215 it does not.
func vh_C09_batch_small_order_gate() {
	if modm.BitsPerLimb != 56 {
		// the skeleton is cut at the ge25519 / modm API and does not depend on the limb layout; its point
		// handles are 64-bit cells, so it is run on the 64-bit layouts only
		vNote("layout-independent skeleton harness: not run on the 32-bit limb layout")
		return
	}
	n := 5
	vReplicate = 0
	if vCase(0, 1) == 1 {
		n = 68
		vReplicate = 64
	}
	r := vBatchRun(n, -1, 0, 0)
	if !r.entropyOK {
		return
	}
	vReach("batch verified")
	for i := 0; i < n; i++ {
		vAssert(r.valid[i] == vsVerifyPredicate(r.es[i].pk, r.es[i].msg, r.es[i].sig, 0, "", r.zip), "entry verdict == documented predicate (small-order gate on this entry's key and R)")
	}
}

// C17: a batch of 4 or more entries that are all individually valid is decided by the batch equation itself,
// chunk by chunk: the per-signature fallback (the only caller of verifyWithOptionsNoPanic when the batch length
// leaves no remainder) is unreachable.  n = 4, 5: one chunk; n = 68: two chunks (first one replicated), which is
// where per-chunk state left behind by the in-place multi-scalar multiplication would matter.
var vFallbackCalls int

func vc_countingNoPanic(publicKey PublicKey, message, sig []byte, opts *Options) (bool, error) {
	vFallbackCalls++
	vAssert(false, "per-signature fallback reached for a batch whose entries are all valid")
	return vUFBool("fallbackVerdict", publicKey, sig), nil
}

func vh_C17_valid_batch_no_fallback() {
	if modm.BitsPerLimb != 56 {
		vNote("layout-independent skeleton harness: not run on the 32-bit limb layout")
		return
	}
	n := 4
	vReplicate = 0
	switch vCase(0, 2) {
	case 1:
		n = 5
	case 2:
		n = 68
		vReplicate = 64
	}
	vCutBatch()
	vReplace(verifyWithOptionsNoPanic, vc_countingNoPanic)
	es := vBatchEntries(n, -1, 0, 0)
	zip := vBool("zip215")
	// all entries valid under the options used
	for i := range es {
		vAssume(vsVerifyPredicate(es[i].pk, es[i].msg, es[i].sig, 0, "", zip))
		vAssume(vUFBool("okN", es[i].sig[:32]) == vsDecOK(es[i].sig[:32]))
	}
	// A1 for every chunk: with all entries valid the expected batch equation holds
	pks := make([]PublicKey, n)
	msgs := make([][]byte, n)
	sigs := make([][]byte, n)
	for i := range es {
		pks[i], msgs[i], sigs[i] = es[i].pk, es[i].msg, es[i].sig
	}
	// (the assumption has to precede the call: the randomiser bytes of read k are named in advance)
	off := 0
	for k := 0; off+4 <= n; k++ {
		c := n - off
		if c > 64 {
			c = 64
		}
		vAssume(vsBatchEquation(es[off:off+c], vReaderBytesOfCall(k, 16*c), 0, ""))
		off += c
	}
	ok, valid, err := VerifyBatch(vReader("entropy"), pks, msgs, sigs, &Options{ZIP215Verify: zip})
	failed := false
	for k := 0; k < vReaderCalls(); k++ {
		failed = failed || vReaderFailed(k)
	}
	vReach("VerifyBatch returned")
	if !failed {
		vAssert(vIsNilErr(err) && ok && len(valid) == n, "an all-valid batch is accepted")
	}
}
