package ed25519

// C04: scMinimal(s) <=> LE256(s) < L for all 2^256 values of s.
func vh_C04_scMinimal() {
	s := vBytes("s", 32)
	got := scMinimal(s)
	want := vLEult(s, "7237005577332262213973186563042994240857116359379907606001950938285454250989")
	vReach("after scMinimal")
	vAssert(got == want, "scMinimal(s) == (LE256(s) < L)")
}
