package ed25519

// C04: scMinimal(s) <=> LE256(s) < L for all 2^256 values of s.
func vh_C04_scMinimal() {
	s := vBytes("s", 32)
	got := scMinimal(s)
	want := vLEult(s, "7237005577332262213973186563042994240857116359379907606001950938285454250989")
	vReach("after scMinimal")
	vAssert(got == want, "scMinimal(s) == (LE256(s) < L)")
}

// C04: every single-signature verifier mode rejects S >= L, whatever the cut callees answer.
// variant case as in C01 (0 pure, 1 ctx, 2 ph+ctx, 3 ph), ZIP-215 flag symbolic.
func vh_C04_verify_rejects_S_ge_L() {
	got, _, _, _ := vVerifyWithOptionsCaseLen64()
	vReach("VerifyWithOptions returned")
	vAssert(!got, "S >= L is rejected in default and ZIP-215 mode")
}

func vh_C04_verify_Verify_rejects_S_ge_L() {
	vCutVerify()
	pk := vBytes("pk", 32)
	sig := vBytes("sig", 64)
	vAssume(!vLEult(sig[32:], vOrderL))
	got := Verify(pk, vBlob("M"), sig)
	vReach("Verify returned")
	vAssert(!got, "Verify rejects S >= L")
}

// C04: S < L is never rejected on scalar grounds: for S < L the verdict equals the rest of the predicate,
// which sees S only through its reduction (same obligation as C01 restricted to S < L, incl. [2^252, L)).
func vh_C04_verify_top_slice_admitted() {
	vCutVerify()
	pk := vBytes("pk", 32)
	sig := vBytes("sig", 64)
	msg := vBlob("M")
	vAssume(vLEult(sig[32:], vOrderL))
	vAssume(!vLEult(sig[32:], "0x1000000000000000000000000000000000000000000000000000000000000000")) // 2^252 <= S
	zip := vBool("zip215")
	got := VerifyWithOptions(pk, msg, sig, &Options{ZIP215Verify: zip})
	want := vsVerifyPredicate(pk, msg, sig, 0, "", zip)
	vReach("VerifyWithOptions returned on the top slice")
	vAssert(got == want, "2^252 <= S < L is treated like any smaller S")
}

// C04: uniqueness of the accepted S (arithmetic lemma in the cyclic group Z/8L with B = 8g):
// if 8(S*8g - h*A - R) = 0 and 8(S'*8g - h*A - R) = 0 (mod 8L) with S, S' < L then S = S'.
func vh_C04_uniqueness_lemma() {
	L := vZc(vOrderL)
	eightL := L.Mul(vZi(8))
	S, S2, hA, R := vZfresh("S"), vZfresh("S2"), vZfresh("hA"), vZfresh("R")
	zero := vZi(0)
	vAssume(zero.Le(S) && S.Lt(L) && zero.Le(S2) && S2.Lt(L))
	e1 := vZi(8).Mul(S.Mul(vZi(8)).Sub(hA).Sub(R)).Mod(eightL)
	e2 := vZi(8).Mul(S2.Mul(vZi(8)).Sub(hA).Sub(R)).Mod(eightL)
	vAssume(e1.Eq(zero) && e2.Eq(zero))
	vReach("two accepted scalars")
	vAssert(S.Eq(S2), "accepted S is unique for fixed key, message and R")
}
