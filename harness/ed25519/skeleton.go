package ed25519

import (
	"github.com/oasisprotocol/ed25519/internal/ge25519"
	"github.com/oasisprotocol/ed25519/internal/modm"
)

// ---------------------------------------------------------------------------
// D_UF cut functions (contracts) for the API-level skeleton harnesses.
// Each replaces one heavy callee by uninterpreted functions of its inputs; the
// specifications below are written over the same symbols, so a proof holds for
// every interpretation of the cut callees.  What each callee really computes
// is the subject of C09/C10/C16/C18/C19.

const vOrderL = "7237005577332262213973186563042994240857116359379907606001950938285454250989"

// UnpackNegativeVartime(r, p): reads p[0:32]; ok = okN(p32), point = ptN(p32).
func vc_UnpackNegativeVartime(r *ge25519.Ge25519, p []byte) bool {
	_ = p[31] // the real function indexes p[31] and expands p[0:32]
	b := p[:32]
	vPut(r, vUFPt("ptN", b))
	return vUFBool("okN", b)
}

func vc_CofactorMultiply(r, p *ge25519.Ge25519) {
	vPut(r, vUFPt("mul8", vGetPt(p)))
}

func vc_IsNeutralVartime(q *ge25519.Ge25519) bool {
	return vUFBool("isId", vGetPt(q))
}

func vc_CofactorEqual(p, q *ge25519.Ge25519) bool {
	return vUFBool("cofEq", vGetPt(p), vGetPt(q))
}

func vc_ProjectiveToExtended(r, p *ge25519.Ge25519) {
	vPut(r, vGetPt(p))
}

func vc_DoubleScalarmultVartime(r, p1 *ge25519.Ge25519, s1, s2 *modm.Bignum256) {
	vPut(r, vUFPt("dsm", vGetPt(p1), vGetSc(s1), vGetSc(s2)))
}

// modm.Expand(out, in): out = redL_n(in) where n = len(in) (32 or 64 bytes; 16 for batch randomisers).
func vc_Expand(out *modm.Bignum256, in []byte) {
	switch len(in) {
	case 64:
		vPut(out, vUFSc("redL64", in))
	case 32:
		vPut(out, vUFSc("redL32", in))
	case 16:
		vPut(out, vUFSc("exp16", in))
	default:
		vAssert(false, "modm.Expand called with an unexpected length")
	}
}

func vc_scMul(r, x, y *modm.Bignum256) { vPut(r, vUFSc("mulL", vGetSc(x), vGetSc(y))) }
func vc_scAdd(r, x, y *modm.Bignum256) { vPut(r, vUFSc("addL", vGetSc(x), vGetSc(y))) }
func vc_scContract(out []byte, in *modm.Bignum256) {
	b := vUFBytes("scBytes", 32, vGetSc(in))
	copy(out[:32], b)
}
func vc_ScalarmultBaseNiels(r *ge25519.Ge25519, table *[256][96]byte, s *modm.Bignum256) {
	vAssert(table == &ge25519.NielsBaseMultiples, "fixed-base table argument")
	vPut(r, vUFPt("bmul", vGetSc(s)))
}
func vc_Pack(r []byte, p *ge25519.Ge25519) {
	b := vUFBytes("enc", 32, vGetPt(p))
	copy(r[:32], b)
}

func vCutVerify() {
	vReplace(ge25519.UnpackNegativeVartime, vc_UnpackNegativeVartime)
	vReplace(ge25519.CofactorMultiply, vc_CofactorMultiply)
	vReplace(ge25519.IsNeutralVartime, vc_IsNeutralVartime)
	vReplace(ge25519.CofactorEqual, vc_CofactorEqual)
	vReplace(ge25519.ProjectiveToExtended, vc_ProjectiveToExtended)
	vReplace(ge25519.DoubleScalarmultVartime, vc_DoubleScalarmultVartime)
	vReplace(modm.Expand, vc_Expand)
}

func vCutSign() {
	vReplace(modm.Expand, vc_Expand)
	vReplace(modm.Mul, vc_scMul)
	vReplace(modm.Add, vc_scAdd)
	vReplace(modm.Contract, vc_scContract)
	vReplace(ge25519.ScalarmultBaseNiels, vc_ScalarmultBaseNiels)
	vReplace(ge25519.Pack, vc_Pack)
}

// ---------------------------------------------------------------------------
// Specification helpers (written independently of the implementation).

func vsFlip(b []byte) []byte {
	c := make([]byte, 32)
	copy(c, b[:32])
	c[31] ^= 0x80
	return c
}

// lenient decoding of the 32-byte string b as a point (+P): ok and point.
func vsDecOK(b []byte) bool { return vUFBool("okN", vsFlip(b)) }
func vsDec(b []byte) vPt    { return vUFPt("ptN", vsFlip(b)) }

// the negated decoding (-P)
func vsDecNeg(b []byte) vPt { return vUFPt("ptN", b[:32]) }
func vsDecNegOK(b []byte) bool { return vUFBool("okN", b[:32]) }

// small-order test of the documentation: undecodable, or [8]P is the identity
func vsSmall(b []byte) bool {
	return !vsDecOK(b) || vUFBool("isId", vUFPt("mul8", vsDec(b)))
}

// dom2 prefix for flag f (0 = ctx, 1 = ph) and context sequence c of length n
func vsDom2(f byte, n int, c vSeq) vSeq {
	return vSeqStr("SigEd25519 no Ed25519 collisions").Cat(vSeqByte(f)).Cat(vSeqByte(byte(n))).Cat(c)
}

// the documented verification predicate.  variant: 0 pure, 1 ctx, 2 ph
func vsVerifyPredicate(pk, msg, sig []byte, variant int, ctx string, zip215 bool) bool {
	if len(sig) != 64 {
		return false
	}
	R, S := sig[:32], sig[32:64]
	in := vSeqOf(R).Cat(vSeqOf(pk)).Cat(vSeqOf(msg))
	switch variant {
	case 1:
		in = vsDom2(0, len(ctx), vSeqStr(ctx)).Cat(in)
	case 2:
		in = vsDom2(1, len(ctx), vSeqStr(ctx)).Cat(in)
	}
	h := vUFSc("redL64", vHash(in))
	s := vUFSc("redL32", S)
	sLtL := vLEult(S, vOrderL)
	eq := vUFBool("cofEq", vUFPt("dsm", vsDecNeg(pk), h, s), vsDec(R))
	ok := sLtL && vsDecNegOK(pk) && vsDecOK(R) && eq
	if !zip215 {
		ok = ok && !vsSmall(pk) && !vsSmall(R)
	}
	return ok
}

// A non-empty admissible context: either opaque (any length 1..255, content a sequence variable) or of a
// concrete boundary length with symbolic bytes (so that code which copies or indexes the context is also
// executed exactly).  quick: opaque, 1 and 255 bytes; thorough adds 2, 31, 32, 33, 127, 128, 254.
var vCtxLensQuick = [...]int{0, 1, 255}
var vCtxLensThorough = [...]int{0, 1, 255, 2, 31, 32, 33, 127, 128, 254}

func vCtxString() string {
	var n int
	if vTier() == 0 {
		n = vCtxLensQuick[vCase(0, len(vCtxLensQuick)-1)]
	} else {
		n = vCtxLensThorough[vCase(0, len(vCtxLensThorough)-1)]
	}
	if n == 0 {
		ctx := vBlobString("ctx")
		vAssume(len(ctx) >= 1 && len(ctx) <= 255)
		return ctx
	}
	return string(vBytes("ctxb", n))
}
