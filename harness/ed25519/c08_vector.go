package ed25519

import (
	"github.com/oasisprotocol/ed25519/internal/ge25519"
	"github.com/oasisprotocol/ed25519/internal/modm"
)

// C08: one concrete vector through the real code of this build configuration (expected bytes from crypto/ed25519).  Runs the real key-derivation
// tail (clamp, modm.Expand, ScalarmultBaseNiels, Pack) on a concrete vector
// computed with crypto/ed25519; every branch and value folds to a constant, so
// a wrong instruction semantics in the executor shows up as a failed (constant)
// assertion.
func vh_C08_concrete_vector() {
	digest := [32]byte{0xc3, 0x90, 0x2e, 0xf6, 0x0, 0xc1, 0x88, 0xf0, 0xa9, 0xb0, 0xd3, 0x2d, 0x5e, 0x78, 0xed, 0xf8, 0x86, 0xd6, 0x18, 0x87, 0xe6, 0x98, 0xa8, 0x1a, 0xab, 0x8, 0x4c, 0x8f, 0x86, 0xdb, 0xfe, 0x6f}
	want := [32]byte{0x75, 0x5c, 0x4c, 0xb9, 0x25, 0x6c, 0xa7, 0xcd, 0xc4, 0xac, 0xfd, 0xc6, 0xcf, 0xee, 0xda, 0x84, 0x90, 0x17, 0xe5, 0xb9, 0xf9, 0x51, 0x4e, 0x99, 0x19, 0x1b, 0xd6, 0x7e, 0xb, 0xd, 0x42, 0x76}
	digest[0] &= 248
	digest[31] &= 127
	digest[31] |= 64
	var a modm.Bignum256
	var A ge25519.Ge25519
	var pk [32]byte
	modm.Expand(&a, digest[:])
	ge25519.ScalarmultBaseNiels(&A, &ge25519.NielsBaseMultiples, &a)
	ge25519.Pack(pk[:], &A)
	vAssert(pk == want, "public key of the concrete vector")
	// decode it again and check the small-order test and a concrete double-base multiplication
	var P ge25519.Ge25519
	vAssert(ge25519.UnpackVartime(&P, pk[:]), "decode(encode(A))")
	vAssert(!isSmallOrderVartime(pk[:]), "A is not small order")
	// [a](-A) + [a]B = identity  =>  CofactorEqual(result, identity)
	var N, R, Rext, Id ge25519.Ge25519
	vAssert(ge25519.UnpackNegativeVartime(&N, pk[:]), "decode negative")
	var one modm.Bignum256
	one[0] = 1
	ge25519.DoubleScalarmultVartime(&R, &N, &one, &a)
	ge25519.ProjectiveToExtended(&Rext, &R)
	Id.Reset()
	Id.Y()[0] = 1
	Id.Z()[0] = 1
	vAssert(ge25519.CofactorEqual(&Rext, &Id), "[1](-A) + [a]B == O")
}
