package ed25519

import "github.com/oasisprotocol/ed25519/internal/modm"

// T01: engine self-test on the heap code with a concrete state (a model the solver once produced)
func vh_T01_heapUpdatedRoot_concrete() {
	var h batchHeap
	h.scalars[2][0] = 0x400001
	h.scalars[4][0] = 1
	h.heap[0], h.heap[1], h.heap[2], h.heap[3], h.heap[4] = 2, 3, 4, 0, 1
	h.size = 5
	heapUpdatedRoot(&h, 0)
	vAssert(h.heap[0] == 2 && h.heap[1] == 3 && h.heap[2] == 4 && h.heap[3] == 0 && h.heap[4] == 1, "concrete heapUpdatedRoot result")
}

// the same state with one symbolic scalar limb (exercises fork/merge inside the sift loops)
func vh_T01_heapUpdatedRoot_semisymbolic() {
	y := vFreshLimb("y")
	vAssume(y == 1)
	var g batchHeap
	g.scalars[2][0] = 0x400001
	g.scalars[4][0] = y
	g.heap[0], g.heap[1], g.heap[2], g.heap[3], g.heap[4] = 2, 3, 4, 0, 1
	g.size = 5
	heapUpdatedRoot(&g, 0)
	vAssert(g.heap[0] == 2, "heap[0]")
	vAssert(g.heap[1] == 3, "heap[1]")
	vAssert(g.heap[2] == 4, "heap[2]")
	vAssert(g.heap[3] == 0, "heap[3]")
	vAssert(g.heap[4] == 1, "heap[4]")
	vAssert(g.heap[5] == 0 && g.heap[6] == 0, "heap[5..6] untouched")
}

func vh_T01_heapSwap_symbolic() {
	var g batchHeap
	g.heap[0], g.heap[1], g.heap[2], g.heap[3], g.heap[4] = 2, 3, 4, 0, 1
	c := vBool("c")
	node := 1
	if c {
		node = 2
	}
	heapSwap(g.heap[:], 0, node)
	if c {
		vAssert(g.heap[0] == 4 && g.heap[2] == 2 && g.heap[1] == 3, "swap(0,2)")
	} else {
		vAssert(g.heap[0] == 3 && g.heap[1] == 2 && g.heap[2] == 4, "swap(0,1)")
	}
}

func vDbgUpdatedRoot(heap *batchHeap, limbSize int) {
	var (
		pheap   = heap.heap[:]
		scalars = heap.scalars[:]
	)
	parent := 0
	node := 1
	childl := 1
	childr := 2
	for childr < heap.size {
		if modm.LessThanVartime(&scalars[pheap[childl]], &scalars[pheap[childr]], limbSize) {
			node = childr
		} else {
			node = childl
		}
		vDebugEval("loop1 node", "y=1", node)
		vDebugEval("loop1 parent", "y=1", parent)
		heapSwap(pheap, parent, node)
		vDebugEval("loop1 heap0", "y=1", int(pheap[0]))
		vDebugEval("loop1 heap1", "y=1", int(pheap[1]))
		vDebugEval("loop1 heap2", "y=1", int(pheap[2]))
		parent = node
		childl = (parent * 2) + 1
		childr = childl + 1
	}
	vDebugEval("after loop1 node", "y=1", node)
	vDebugEval("after loop1 heap0", "y=1", int(pheap[0]))
	vDebugEval("after loop1 heap1", "y=1", int(pheap[1]))
	vDebugEval("after loop1 heap2", "y=1", int(pheap[2]))
	vDebugEval("after loop1 heap3", "y=1", int(pheap[3]))
	parent = (node - 1) / 2
	vDebugEval("parent", "y=1", parent)
	for (node != 0) && modm.LessThanOrEqualVartime(&scalars[pheap[parent]], &scalars[pheap[node]], limbSize) {
		heapSwap(pheap, parent, node)
		node = parent
		parent = (node - 1) / 2
		vDebugEval("loop2 node", "y=1", node)
	}
	vDebugEval("end heap0", "y=1", int(pheap[0]))
	vDebugEval("end heap2", "y=1", int(pheap[2]))
}

func vh_T01_dbg() {
	y := vFreshLimb("y")
	vAssume(y == 1)
	var g batchHeap
	g.scalars[2][0] = 0x400001
	g.scalars[4][0] = y
	g.heap[0], g.heap[1], g.heap[2], g.heap[3], g.heap[4] = 2, 3, 4, 0, 1
	g.size = 5
	vDbgUpdatedRoot(&g, 0)
	vAssert(g.heap[0] == 2, "heap[0]")
}
