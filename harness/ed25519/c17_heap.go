package ed25519

import "github.com/oasisprotocol/ed25519/internal/modm"

// ---------------------------------------------------------------------------
// C17: Bos-Coster heap operations from an arbitrary state (one operation = one inductive step).
// The heap is a symbolic permutation of 0..n-1 over n symbolic scalars; scalars have zero limbs above limbSize.

var vHeapSizesQuick = [...]int{3, 5, 7}
var vHeapSizesThorough = [...]int{3, 5, 7, 9, 11, 13}

func vHeapN() int {
	if vTier() == 0 {
		return vHeapSizesQuick[vCase(0, len(vHeapSizesQuick)-1)]
	}
	return vHeapSizesThorough[vCase(0, len(vHeapSizesThorough)-1)]
}

// scalar i < scalar j as integers over limbs 0..limbSize
func vScLess(h *batchHeap, i, j heapIndex, limbSize int) bool {
	lt := false
	for l := 0; l <= limbSize; l++ {
		a, b := h.scalars[i][l], h.scalars[j][l]
		lt = a < b || (a == b && lt)
	}
	return lt
}

// fresh heap state: n scalars with symbolic limbs < 2^BitsPerLimb (zero above limbSize); heap[] is one of three
// fixed permutations without fixed points (so that confusing a heap position with the entry it refers to
// shows), selected by a case split.  Symbolic permutations make the sift obligations intractable for n >= 7;
// the code treats indices opaquely, it only swaps them.
func vFreshHeap(h *batchHeap, n, limbSize int) {
	perm := vCase(0, 2)
	for i := 0; i < n; i++ {
		for l := 0; l < modm.LimbSize; l++ {
			if l <= limbSize {
				h.scalars[i][l] = vFreshLimb("s" + vItoa(i) + "_" + vItoa(l))
				vAssume(h.scalars[i][l] < 1<<modm.BitsPerLimb)
			}
		}
		switch perm {
		case 0:
			h.heap[i] = heapIndex((i + 1) % n) // rotation
		case 1:
			h.heap[i] = heapIndex(n - 1 - i) // reversal (n odd: the middle is fixed, moved below)
		case 2:
			h.heap[i] = heapIndex((i + n/2) % n)
		}
	}
	if perm == 1 {
		h.heap[n/2], h.heap[0] = h.heap[0], h.heap[n/2]
	}
	h.size = n
}

// heap order at node k (k >= 1): parent >= child
func vHeapOrderAt(h *batchHeap, k, limbSize int) bool {
	return !vScLess(h, h.heap[(k-1)/2], h.heap[k], limbSize)
}

func vIsPermutation(h *batchHeap, n int) bool {
	ok := true
	for v := 0; v < n; v++ {
		found := false
		for k := 0; k < n; k++ {
			found = found || int(h.heap[k]) == v
		}
		ok = ok && found
	}
	return ok
}

// C17: heapUpdatedRoot restores the heap order from any state whose only violation is at the root
func vh_C17_heapUpdatedRoot() {
	n := vHeapN()
	limbSize := vCase(0, modm.LimbSize-1)
	var h batchHeap
	vFreshHeap(&h, n, limbSize)
	for k := 3; k < n; k++ { // children of the root are unconstrained relative to the (updated) root
		vAssume(vHeapOrderAt(&h, k, limbSize))
	}
	heapUpdatedRoot(&h, limbSize)
	vReach("heapUpdatedRoot returned")
	ok := true
	for k := 1; k < n; k++ {
		ok = ok && vHeapOrderAt(&h, k, limbSize)
	}
	vAssert(ok, "heap order holds at every node after heapUpdatedRoot")
	vAssert(vIsPermutation(&h, n) && h.size == n, "heap is still a permutation of the same entries")
}

// C17: heapInsertNext adds entry `size` and keeps the heap order (comparison over all limbs)
func vh_C17_heapInsertNext() {
	n := vHeapN()
	var h batchHeap
	vFreshHeap(&h, n-1, modm.LimbSize-1)
	// entries 0..n-2 form a heap over indices 0..n-2; scalar n-1 is the one to be inserted
	for l := 0; l < modm.LimbSize; l++ {
		h.scalars[n-1][l] = vFreshLimb("new_" + vItoa(l))
		vAssume(h.scalars[n-1][l] < 1<<modm.BitsPerLimb)
	}
	for k := 1; k < n-1; k++ {
		vAssume(vHeapOrderAt(&h, k, modm.LimbSize-1))
	}
	heapInsertNext(&h)
	vReach("heapInsertNext returned")
	ok := true
	for k := 1; k < n; k++ {
		ok = ok && vHeapOrderAt(&h, k, modm.LimbSize-1)
	}
	vAssert(ok && h.size == n, "heap order holds after the insertion, size incremented")
	vAssert(vIsPermutation(&h, n), "heap is a permutation of 0..size-1")
}

// C17: heapGetTop2 returns the maximum and the second maximum of a heap
func vh_C17_heapGetTop2() {
	n := vHeapN()
	limbSize := vCase(0, modm.LimbSize-1)
	var h batchHeap
	vFreshHeap(&h, n, limbSize)
	for k := 1; k < n; k++ {
		vAssume(vHeapOrderAt(&h, k, limbSize))
	}
	m1, m2 := heapGetTop2(&h, limbSize)
	vReach("heapGetTop2 returned")
	ok := m1 == h.heap[0]
	for k := 1; k < n; k++ {
		ok = ok && !vScLess(&h, m1, h.heap[k], limbSize) && !vScLess(&h, m2, h.heap[k], limbSize)
	}
	vAssert(ok && m1 != m2, "max1 is the root, max2 dominates every other entry")
}
