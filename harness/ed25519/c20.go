package ed25519

// C20: secrets never steer control flow, memory indices or variable-time
// primitives.  Secret inputs are tainted symbols; the executor flags every
// branch condition, index, shift amount, division operand and variable-time
// primitive (bytes.Equal) whose term mentions a secret symbol.  The whole call
// is inlined down to the limb code (and the translated assembly selector).

func vh_C20_NewKeyFromSeed() {
	vStopOnTaint(true) // the first secret-dependent site ends the run: the finding is established
	seed := vSecretBytes("seed", 32)
	k := NewKeyFromSeed(seed)
	vAssert(len(k) == 64, "private key length")
	vReach("end of NewKeyFromSeed")
}

func vh_C20_Sign() {
	vStopOnTaint(true) // the first secret-dependent site ends the run: the finding is established
	seed := vSecretBytes("seed", 32)
	pub := vBytes("pub", 32)
	priv := make([]byte, 64)
	copy(priv, seed)
	copy(priv[32:], pub)
	msg := vBlob("M")
	sig := Sign(priv, msg)
	vAssert(len(sig) == 64, "signature length")
	vReach("end of Sign")
}

func vh_C20_SignCtxPh() {
	vStopOnTaint(true) // the first secret-dependent site ends the run: the finding is established
	seed := vSecretBytes("seed", 32)
	pub := vBytes("pub", 32)
	priv := make([]byte, 64)
	copy(priv, seed)
	copy(priv[32:], pub)
	variant := vCase(0, 1)
	vPrune(true)
	ctx := vBlobString("ctx")
	vAssume(len(ctx) >= 1 && len(ctx) <= 255)
	var sig []byte
	var err error
	if variant == 0 {
		msg := vBlob("M")
		sig, err = PrivateKey(priv).Sign(nil, msg, &Options{Context: ctx})
	} else {
		digest := vBytes("digest", 64)
		sig, err = PrivateKey(priv).Sign(nil, digest, &Options{Hash: 7 /* crypto.SHA512 */, Context: ctx})
	}
	_ = sig
	_ = err
	vReach("end of PrivateKey.Sign")
}

func vh_C20_GenerateKey() {
	vStopOnTaint(true) // the first secret-dependent site ends the run: the finding is established
	pub, priv, err := GenerateKey(vReader("secret:entropy"))
	_, _, _ = pub, priv, err
	vReach("end of GenerateKey")
}

func vh_C20_PrivateKeyEqual() {
	vStopOnTaint(true) // the first secret-dependent site ends the run: the finding is established
	a := PrivateKey(vSecretBytes("a", 64))
	b := PrivateKey(vSecretBytes("b", 64))
	_ = a.Equal(b)
	vReach("end of PrivateKey.Equal")
}
