package x25519

import (
	xcurve "golang.org/x/crypto/curve25519"

	"github.com/oasisprotocol/ed25519/internal/ge25519"
	"github.com/oasisprotocol/ed25519/internal/modm"
)

// scalar limbs as an integer (both layouts)
func vScVal(x *modm.Bignum256) vZ {
	v := vZi(0)
	for i := 0; i < modm.LimbSize; i++ {
		v = v.Add(vZu(uint64(x[i])).Shl(modm.BitsPerLimb * i))
	}
	return v
}

// C11: ScalarBaseMult = clamp, raw expansion (no reduction), fixed-base multiplication, u = (Y+Z)/(Z-Y), canonical bytes
func vh_C11_ScalarBaseMult() {
	vCutFieldX()
	vReplace(ge25519.ScalarmultBaseNiels, vc_xScalarmultBaseNiels)
	vRecipOfZero = vCase(0, 1) == 1
	in := vBytes("scalar", 32)
	var dst, src [32]byte
	copy(src[:], in)
	ScalarBaseMult(&dst, &src)
	vReach("ScalarBaseMult returned")
	// the scalar handed to the fixed-base multiplication is the clamped integer, unreduced, below 2^255
	cl := make([]byte, 32)
	copy(cl, in)
	cl[0] &= 248
	cl[31] &= 127
	cl[31] |= 64
	vAssert(vScVal(vBaseScalar).Eq(vZle(cl)), "fixed-base scalar = clamp(scalar) as an integer (no reduction mod L)")
	vAssert(vScVal(vBaseScalar).Lt(vZi(1).Shl(255)), "fixed-base scalar < 2^255 (precondition of the radix-16 recoding)")
	// u (Z - Y) == Y + Z, u canonical; u == 0 when Z == Y
	vAssert(vCong(vRecipArg, vBaseZ.Sub(vBaseY)), "the inverted quantity is Z - Y")
	u := vZle(dst[:])
	vAssert(u.Lt(vZc(vP)), "output is canonical (< p)")
	if vRecipOfZero {
		vAssert(u.Eq(vZi(0)), "Z == Y: output 0")
	} else {
		q := vBaseY.Add(vBaseZ).Mul(vRecipOut)
		vAssert(u.Eq(q.Mod(vZc(vP))), "u = canonical((Y + Z) * inverse(Z - Y))")
		vAssert(vCong(q.Mul(vBaseZ.Sub(vBaseY)), vBaseY.Add(vBaseZ)), "((Y + Z) * inverse(Z - Y)) (Z - Y) == Y + Z")
	}
	vAssert(!vStoresToCaller(), "the input scalar is not modified")
}

// C11: X25519 takes the precomputed path exactly when the point argument is the exported Basepoint slice
// (pointer identity), otherwise the generic ladder; error and no output exactly for an all-zero ladder result
func vc_xBase(dst, in *[32]byte) { copy(dst[:], vUFBytes("basemul", 32, in[:])) }
func vc_xLadder(dst, in, base *[32]byte) {
	copy(dst[:], vUFBytes("ladder", 32, in[:], base[:]))
}

func vh_C11_X25519_dispatch() {
	vReplace(ScalarBaseMult, vc_xBase)
	vReplace(xcurve.ScalarMult, vc_xLadder)
	sc := vBytes("scalar", 32)
	which := vCase(0, 2)
	var out []byte
	var err error
	switch which {
	case 0: // the exported slice itself
		out, err = X25519(sc, Basepoint)
		vReach("base-point path")
		vAssert(err == nil && len(out) == 32, "base-point path: no error")
		want := vUFBytes("basemul", 32, sc)
		eq := true
		for i := range out {
			eq = eq && out[i] == want[i]
		}
		vAssert(eq, "X25519(s, Basepoint) = ScalarBaseMult(s)")
	case 1: // a different slice with the same contents
		pt := make([]byte, 32)
		pt[0] = 9
		out, err = X25519(sc, pt)
		want := vUFBytes("ladder", 32, sc, pt)
		zero := vLEeq(want, "0")
		vAssert((err != nil) == zero, "generic path: error exactly for an all-zero result")
		if !zero {
			eq := len(out) == 32
			for i := 0; i < 32; i++ {
				eq = eq && out[i] == want[i]
			}
			vAssert(eq, "X25519(s, copy of base point) = ladder(s, 9)")
		}
	case 2: // arbitrary point
		pt := vBytes("point", 32)
		out, err = X25519(sc, pt)
		want := vUFBytes("ladder", 32, sc, pt)
		zero := vLEeq(want, "0")
		vReach("generic path")
		vAssert((err != nil) == zero && (out == nil) == zero, "generic path: error and no output exactly for an all-zero result")
		if !zero {
			eq := len(out) == 32
			for i := 0; i < 32; i++ {
				eq = eq && out[i] == want[i]
			}
			vAssert(eq, "X25519(s, P) = ladder(s, P)")
		}
	}
	vAssert(!vStoresToCaller(), "inputs are not modified")
}

// the exported Basepoint slice holds the RFC 7748 base point and checkBasepoint accepts exactly that
func vh_C11_Basepoint_constant() {
	vAssert(len(Basepoint) == 32 && Basepoint[0] == 9, "Basepoint = 9")
	z := true
	for i := 1; i < 32; i++ {
		z = z && Basepoint[i] == 0
	}
	vAssert(z, "Basepoint upper bytes are zero")
	p := vCatch(func() { checkBasepoint() })
	vAssert(!p, "checkBasepoint accepts the unmodified base point")
}
