package x25519

import xcurve "golang.org/x/crypto/curve25519"

// C15 (X25519): base-point call after a generic call and vice versa: same results, no store to inputs or to
// package-level state (the exported Basepoint slice included)
func vh_C15_x25519_sequence() {
	vReplace(ScalarBaseMult, vc_xBase)
	vReplace(xcurve.ScalarMult, vc_xLadder)
	sc1, sc2, pt := vBytes("s1", 32), vBytes("s2", 32), vBytes("point", 32)
	b1, e1 := X25519(sc1, Basepoint)
	_, _ = X25519(sc2, pt)
	b2, e2 := X25519(sc1, Basepoint)
	vReach("sequence executed")
	eq := (e1 == nil) == (e2 == nil) && len(b1) == len(b2)
	if eq {
		for i := range b1 {
			eq = eq && b1[i] == b2[i]
		}
	}
	vAssert(eq, "base-point X25519 returns the same result after a generic call")
	vAssert(!vStoresToCaller(), "no store to a caller-supplied or package-level object")
}
