package x25519

import (
	"github.com/oasisprotocol/ed25519/internal/curve25519"
	"github.com/oasisprotocol/ed25519/internal/ge25519"
	"github.com/oasisprotocol/ed25519/internal/modm"
)

// field-abstract contracts for the few field operations the X25519 glue uses (values are integer polynomials
// whose residue mod p is the field value; see harness/ge25519/feabs.go for the discipline, C18 for the proofs)

const vP = "57896044618658097711785492504343953926634992332820282019728792003956564819949"

func vCong(a, b vZ) bool { return a.Sub(b).Mod(vZc(vP)).Eq(vZi(0)) }

func vFEv(p *curve25519.Bignum25519) vZ {
	if vIsAbstractZ(p) {
		return vGetZ(p)
	}
	v := vZi(0)
	for i := range p {
		off := 51 * i
		if len(p) == 10 {
			off = (51*i + 1) / 2
		}
		v = v.Add(vZu(uint64(p[i])).Shl(off))
	}
	return v
}

func vc_xAdd(out, a, b *curve25519.Bignum25519) { vPut(out, vFEv(a).Add(vFEv(b))) }
func vc_xSub(out, a, b *curve25519.Bignum25519) { vPut(out, vFEv(a).Sub(vFEv(b))) }
func vc_xMul(out, a, b *curve25519.Bignum25519) { vPut(out, vFEv(a).Mul(vFEv(b))) }

var vRecipArg vZ
var vRecipOut vZ
var vRecipOfZero bool

// Recip: w with z w == 1 (z != 0) resp. w == 0 (z == 0); which case is explored is chosen by the harness
func vc_xRecip(out, z *curve25519.Bignum25519) {
	zv := vFEv(z)
	vRecipArg = zv
	w := vZfresh("recip")
	if vRecipOfZero {
		vAssume(vCong(zv, vZi(0)))
		vAssume(vCong(w, vZi(0)))
	} else {
		vAssume(!vCong(zv, vZi(0)))
		if a, ok := vZasAtom(zv); ok {
			vInversePair(a, w, vZc(vP))
		} else {
			vAssume(vCong(zv.Mul(w), vZi(1)))
		}
	}
	vRecipOut = w
	vPut(out, w)
}

func vc_xContract(out []byte, in *curve25519.Bignum25519) {
	_ = out[31]
	copy(out[:32], vZbytes(vFEv(in).Mod(vZc(vP)), 32))
}

func vc_xNeg(out, a *curve25519.Bignum25519)    { vPut(out, vFEv(a).Neg()) }
func vc_xSquare(out, a *curve25519.Bignum25519) { vPut(out, vFEv(a).Mul(vFEv(a))) }
func vc_xCopy(out, a *curve25519.Bignum25519) {
	if vIsAbstractZ(a) {
		vPut(out, vGetZ(a))
	} else {
		*out = *a
	}
}

func vCutFieldX() {
	vReplace(curve25519.Add, vc_xAdd)
	vReplace(curve25519.AddAfterBasic, vc_xAdd)
	vReplace(curve25519.AddReduce, vc_xAdd)
	vReplace(curve25519.Sub, vc_xSub)
	vReplace(curve25519.SubAfterBasic, vc_xSub)
	vReplace(curve25519.SubReduce, vc_xSub)
	vReplace(curve25519.Neg, vc_xNeg)
	vReplace(curve25519.Square, vc_xSquare)
	vReplace(curve25519.Copy, vc_xCopy)
	vReplace(curve25519.Mul, vc_xMul)
	vReplace(curve25519.Recip, vc_xRecip)
	vReplace(curve25519.Contract, vc_xContract)
}

// fixed-base multiplication: the resulting point has fresh projective coordinates (X : Y : Z); the scalar
// handed over is recorded
var vBaseScalar *modm.Bignum256
var vBaseY, vBaseZ vZ

func vc_xScalarmultBaseNiels(r *ge25519.Ge25519, table *[256][96]byte, s *modm.Bignum256) {
	vAssert(table == &ge25519.NielsBaseMultiples, "fixed-base table argument")
	cp := *s
	vBaseScalar = &cp
	// Z is parametrised as Y + delta so that Z - Y is a single symbol (every pair (Y, Z) is of this form)
	vBaseY = vZfresh("PY")
	vBaseZ = vBaseY.Add(vZfresh("PZminusY"))
	vPut(r.Y(), vBaseY)
	vPut(r.Z(), vBaseZ)
	vPut(r.X(), vZfresh("PX"))
}
