package x25519

import (
	xcurve "golang.org/x/crypto/curve25519"
)

var vLens = [...]int{32, 0, 31, 33, 64}

// the generic ladder is external code (golang.org/x/crypto): uninterpreted function of (scalar, point)
func vc_xScalarMult(dst, in, base *[32]byte) {
	out := vUFBytes("ladder", 32, in[:], base[:])
	copy(dst[:], out)
}

// C13: X25519 never panics; an error and no output exactly for wrong lengths or an all-zero result.
func vh_C13_X25519() {
	vReplace(xcurve.ScalarMult, vc_xScalarMult)
	sl := vLens[vCase(0, len(vLens)-1)]
	pl := vLens[vCase(0, len(vLens)-1)]
	sc := vBytesCap("scalar", sl, sl+2)
	pt := vBytesCap("point", pl, pl+2)
	var out []byte
	var err error
	p := vCatch(func() { out, err = X25519(sc, pt) })
	vReach("X25519 returned")
	vAssert(!p, "X25519 never panics")
	if sl != 32 || pl != 32 {
		vAssert(err != nil && out == nil, "wrong lengths => error and no output")
	} else {
		zero := vLEeq(vUFBytes("ladder", 32, sc, pt), "0")
		vAssert((err != nil) == zero && (out == nil) == zero, "error and no output exactly for an all-zero result")
	}
}
