package x25519

import (
	"github.com/oasisprotocol/ed25519"
	"github.com/oasisprotocol/ed25519/internal/curve25519"
	"github.com/oasisprotocol/ed25519/internal/ge25519"
)

// C12: EdPrivateKeyToX25519 = clamp(first half of SHA-512(seed)), a fresh 32-byte slice, key not modified
func vh_C12_EdPrivateKeyToX25519() {
	priv := vBytes("priv", 64)
	out := EdPrivateKeyToX25519(ed25519.PrivateKey(priv))
	vReach("EdPrivateKeyToX25519 returned")
	h := vHash(vSeqOf(priv[:32]))
	want := make([]byte, 32)
	copy(want, h[:32])
	want[0] &= 248
	want[31] &= 127
	want[31] |= 64
	eq := len(out) == 32
	for i := 0; i < 32; i++ {
		eq = eq && out[i] == want[i]
	}
	vAssert(eq, "converted private key = clamp(SHA-512(seed)[:32])")
	vAssert(!vSameObject(out, priv) && !vStoresToCaller(), "fresh slice, private key not modified")
}

// decoding is cut: ok = okDec(bytes), Y = yDec (a fresh field value), Z = 1
var vDecY vZ

func vc_xUnpackVartime(r *ge25519.Ge25519, p []byte) bool {
	_ = p[31]
	// y is parametrised as 1 - e so that 1 - y is a single symbol
	vDecY = vZi(1).Sub(vZfresh("oneMinusY"))
	vPut(r.Y(), vDecY)
	var one curve25519.Bignum25519
	one[0] = 1
	*r.Z() = one
	return vUFBool("okDec", p[:32])
}

// C12: EdPublicKeyToX25519 fails exactly for undecodable keys; otherwise the canonical encoding of
// u = (1 + y)/(1 - y), and 0 when y == 1
func vh_C12_EdPublicKeyToX25519() {
	vCutFieldX()
	vReplace(ge25519.UnpackVartime, vc_xUnpackVartime)
	vRecipOfZero = vCase(0, 1) == 1
	vNoMerge(true) // success and failure return different slices: explore them as separate paths
	pk := vBytes("pk", 32)
	out, ok := EdPublicKeyToX25519(ed25519.PublicKey(pk))
	vReach("EdPublicKeyToX25519 returned")
	vAssert(ok == vUFBool("okDec", pk), "conversion fails exactly when the key does not decode")
	if !ok {
		vAssert(out == nil, "no output on failure")
	} else {
		y := vDecY
		u := vZle(out)
		vAssert(len(out) == 32 && u.Lt(vZc(vP)), "canonical 32-byte output")
		vAssert(vCong(vRecipArg, vZi(1).Sub(y)), "the inverted quantity is 1 - y")
		if vRecipOfZero {
			vAssert(u.Eq(vZi(0)), "y == 1: output 0")
		} else {
			// u is the canonical form of q = (1+y) w where w (1-y) == 1; hence q (1-y) == 1+y
			q := vZi(1).Add(y).Mul(vRecipOut)
			vAssert(u.Eq(q.Mod(vZc(vP))), "u = canonical((1 + y) * inverse(1 - y))")
			vAssert(vCong(q.Mul(vZi(1).Sub(y)), vZi(1).Add(y)), "((1 + y) * inverse(1 - y)) (1 - y) == 1 + y")
		}
	}
	vAssert(!vStoresToCaller(), "the public key is not modified")
}

// commutation (algebra over the cut symbols): the Montgomery u of [a]B computed by the base-point path from
// projective (Y : Z) equals the conversion of the encoded affine y = Y/Z:  (Y+Z)/(Z-Y) == (1+y)/(1-y)
func vh_C12_commutation_algebra() {
	Y, Z, zi, w1, w2 := vZfresh("Y"), vZfresh("Z"), vZfresh("zi"), vZfresh("w1"), vZfresh("w2")
	vAssume(vCong(Z.Mul(zi), vZi(1)))
	y := Y.Mul(zi)
	vAssume(vCong(Z.Sub(Y).Mul(w1), vZi(1)))
	vAssume(vCong(vZi(1).Sub(y).Mul(w2), vZi(1)))
	vReach("Z and Z - Y invertible")
	u1 := Y.Add(Z).Mul(w1)
	u2 := vZi(1).Add(y).Mul(w2)
	// cross-multiplied: u1 (1 - y) (Z - Y) == u2 (1 - y)(Z - Y) reduces to (Y+Z)(1-y) == (1+y)(Z-Y) given the inverses
	vAssert(vCong(Y.Add(Z).Mul(vZi(1).Sub(y)).Mul(Z), vZi(1).Add(y).Mul(Z.Sub(Y)).Mul(Z)), "(Y+Z)(1-y) == (1+y)(Z-Y) for y = Y/Z")
	_, _ = u1, u2
}
