package x25519

import "github.com/oasisprotocol/ed25519"

func vh_C20_ScalarBaseMult() {
	vStopOnTaint(true) // the first secret-dependent site ends the run: the finding is established
	in := vSecretBytes("scalar", 32)
	var dst, src [32]byte
	copy(src[:], in)
	ScalarBaseMult(&dst, &src)
	vReach("end of ScalarBaseMult")
}

func vh_C20_X25519Basepoint() {
	vStopOnTaint(true) // the first secret-dependent site ends the run: the finding is established
	in := vSecretBytes("scalar", 32)
	out, err := X25519(in, Basepoint)
	_, _ = out, err
	vReach("end of X25519(scalar, Basepoint)")
}

func vh_C20_EdPrivateKeyToX25519() {
	vStopOnTaint(true) // the first secret-dependent site ends the run: the finding is established
	priv := vSecretBytes("priv", 64)
	out := EdPrivateKeyToX25519(ed25519.PrivateKey(priv))
	vAssert(len(out) == 32, "converted key length")
	vReach("end of EdPrivateKeyToX25519")
}
