package modm

// ---------------------------------------------------------------------------
// C17 / C19: the variable-time scalar helpers of the batch verifier are exact on both limb layouts, for every
// limbSize and all limb values below 2^BitsPerLimb (limbs above limbSize are ignored by the comparisons and left
// alone by the subtraction: the loop invariant of vh_C17_bosCoster_step keeps them zero).

func vValUpTo(x *Bignum256, ls int) vZ {
	v := vZi(0)
	for i := 0; i <= ls; i++ {
		v = v.Add(vElemZ(x[i]).Shl(BitsPerLimb * i))
	}
	return v
}

func vFullLimbs(x *Bignum256) bool {
	ok := true
	for i := 0; i < LimbSize; i++ {
		ok = ok && x[i] < 1<<BitsPerLimb
	}
	return ok
}

func vh_C19_vartime_compare() {
	ls := vCase(0, LimbSize-1)
	a, b := vFreshScalar("a"), vFreshScalar("b")
	vAssume(vFullLimbs(&a))
	vAssume(vFullLimbs(&b))
	va, vb := vValUpTo(&a, ls), vValUpTo(&b, ls)
	lt := LessThanVartime(&a, &b, ls)
	le := LessThanOrEqualVartime(&a, &b, ls)
	vReach("comparisons returned")
	vAssert(lt == va.Lt(vb), "LessThanVartime(a, b, limbSize) <=> a < b on limbs 0..limbSize")
	vAssert(le == va.Le(vb), "LessThanOrEqualVartime(a, b, limbSize) <=> a <= b on limbs 0..limbSize")
}

func vh_C19_vartime_sub() {
	ls := vCase(0, LimbSize-1)
	a, b := vFreshScalar("a"), vFreshScalar("b")
	vAssume(vFullLimbs(&a))
	vAssume(vFullLimbs(&b))
	va, vb := vValUpTo(&a, ls), vValUpTo(&b, ls)
	vAssume(vb.Le(va))
	a0 := a
	SubVartime(&a, &a, &b, ls) // in place, as the batch verifier calls it
	vReach("SubVartime returned")
	vAssert(vValUpTo(&a, ls).Eq(va.Sub(vb)), "SubVartime(a, a, b, limbSize) = a - b on limbs 0..limbSize when a >= b")
	ok := true
	for i := 0; i < LimbSize; i++ {
		ok = ok && a[i] < 1<<BitsPerLimb
		if i > ls {
			ok = ok && a[i] == a0[i]
		}
	}
	vAssert(ok, "SubVartime: result limbs in range, limbs above limbSize untouched")
	var out Bignum256
	SubVartime(&out, &a0, &b, ls)
	same := true
	for i := 0; i <= ls; i++ {
		same = same && out[i] == a[i]
	}
	vAssert(same, "SubVartime: the same limbs when the output is a different object")
}

func vh_C19_vartime_predicates() {
	a := vFreshScalar("a")
	vAssume(vFullLimbs(&a))
	v := vVal(&a)
	vAssert(IsZeroVartime(&a) == v.Eq(vZi(0)), "IsZeroVartime <=> a == 0")
	vAssert(IsOneVartime(&a) == v.Eq(vZi(1)), "IsOneVartime <=> a == 1")
	vAssert(IsAtMost128bitsVartime(&a) == v.Lt(vZi(1).Shl(128)), "IsAtMost128bitsVartime <=> a < 2^128")
	vReach("predicates returned")
}
