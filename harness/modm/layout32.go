// +build 386 force32bit
// +build !force64bit

package modm

func vElem(name string) Element { return Element(vU32(name)) }
func vElemZ(x Element) vZ       { return vZu(uint64(x)) }
