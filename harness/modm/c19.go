package modm

const vL = "7237005577332262213973186563042994240857116359379907606001950938285454250989"

const vTopBits = 256 - BitsPerLimb*(LimbSize-1) // 32 on the 5x56 layout, 16 on the 9x30 layout

// value of a limb vector as a mathematical integer (both layouts)
func vVal(x *Bignum256) vZ {
	v := vZi(0)
	for i := 0; i < LimbSize; i++ {
		v = v.Add(vElemZ(x[i]).Shl(BitsPerLimb * i))
	}
	return v
}

func vFreshScalar(name string) Bignum256 {
	var x Bignum256
	for i := 0; i < LimbSize; i++ {
		x[i] = vElem(name + string(rune('0'+i)))
	}
	return x
}

// limbs of a reduced-form scalar: full limbs below 2^BitsPerLimb and a short top limb (value < 2^256)
func vInReducedForm(x *Bignum256) bool {
	ok := true
	for i := 0; i < LimbSize-1; i++ {
		ok = ok && x[i] < 1<<BitsPerLimb
	}
	return ok && x[LimbSize-1] < 1<<vTopBits
}

// input form of reduce inside barrettReduce: full limbs below 2^BitsPerLimb, top limb below 2^(vTopBits+8)
// (the Barrett remainder is taken modulo 2^264)
func vInBarrettForm(x *Bignum256) bool {
	ok := true
	for i := 0; i < LimbSize-1; i++ {
		ok = ok && x[i] < 1<<BitsPerLimb
	}
	return ok && x[LimbSize-1] < 1<<(vTopBits+8)
}

// C19: reduce(r) = r - L if r >= L else r, for every limb vector in Barrett form (any value < 2^264)
func vh_C19_reduce() {
	r := vFreshScalar("r")
	vAssume(vInBarrettForm(&r))
	L := vZc(vL)
	v := vVal(&r)
	reduce(&r)
	vReach("reduce returned")
	want := vZite(v.Lt(L), v, v.Sub(L))
	vAssert(vVal(&r).Eq(want), "reduce = conditional subtraction of L")
	vAssert(vInBarrettForm(&r), "output limbs in Barrett form")
	if vBool("below2L") {
		vAssume(v.Lt(L.Add(L)))
		vAssert(vVal(&r).Lt(L) && vInReducedForm(&r), "input < 2L => output < L in reduced form")
	}
}

// C19: Add(x, y) = (x + y) mod L for x, y < L in reduced form
func vh_C19_Add() {
	x, y := vFreshScalar("x"), vFreshScalar("y")
	vAssume(vInReducedForm(&x) && vInReducedForm(&y))
	L := vZc(vL)
	vAssume(vVal(&x).Lt(L) && vVal(&y).Lt(L))
	var r Bignum256
	Add(&r, &x, &y)
	vReach("Add returned")
	vAssert(vVal(&r).Eq(vVal(&x).Add(vVal(&y)).Mod(L)), "Add = (x + y) mod L")
	vAssert(vInReducedForm(&r) && vVal(&r).Lt(L), "output canonical (< L, limbs in reduced form)")
}

// C19: ExpandRaw / Contract are inverse on 32-byte strings (serialisation round-trips)
func vh_C19_Contract_ExpandRaw_roundtrip() {
	b := vBytes("b", 32)
	var s Bignum256
	ExpandRaw(&s, b)
	vAssert(vVal(&s).Eq(vZle(b)), "ExpandRaw value = little-endian integer")
	vAssert(vInReducedForm(&s), "ExpandRaw limbs in reduced form")
	out := make([]byte, 32)
	Contract(out, &s)
	eq := true
	for i := range out {
		eq = eq && out[i] == b[i]
	}
	vReach("round trip done")
	vAssert(eq, "Contract(ExpandRaw(b)) == b")
}

func vh_C19_Contract_value() {
	s := vFreshScalar("s")
	vAssume(vInReducedForm(&s))
	out := make([]byte, 32)
	Contract(out, &s)
	vAssert(vZle(out).Eq(vVal(&s)), "Contract writes the little-endian value")
}

// C19: Expand of fewer than 32 bytes (the 16-byte batch randomisers) is the plain little-endian value, no reduction
func vh_C19_Expand16() {
	b := vBytes("b", 16)
	var s Bignum256
	Expand(&s, b)
	vReach("Expand(16 bytes) returned")
	vAssert(vVal(&s).Eq(vZle(b)), "Expand(16 bytes) = little-endian value")
	vAssert(vInReducedForm(&s), "limbs in reduced form")
}

// C19: signed radix-16 recoding, staged (the monolithic sum does not finish in any back end):
//  (1) per digit, on the real output: b_i = nibble_i(s) + c_i - 16 c_{i+1}, c_0 = 0, c_{i+1} = [nibble_i + c_i >= 8],
//      -8 <= b_i < 8; the top digit b_63 = nibble_63 + c_63 lies in [0, 8] for s < 2^255;
//  (2) the telescoping identity: any digits satisfying (1) sum to s (linear, over fresh integers).
func vh_C19_ContractWindow4_digits() {
	s := vFreshScalar("s")
	vAssume(vInReducedForm(&s))
	v := vVal(&s)
	vAssume(v.Lt(vZi(1).Shl(255)))
	var b [64]int8
	ContractWindow4(&b, &s)
	vReach("ContractWindow4 returned")
	carry := vZi(0)
	for i := 0; i < 64; i++ {
		nib := v.Div(vZi(1).Shl(4 * i)).Mod(vZi(16))
		bi := vZi(int(b[i]))
		if i < 63 {
			next := vZite(vZi(8).Le(nib.Add(carry)), vZi(1), vZi(0))
			vAssert(bi.Eq(nib.Add(carry).Sub(next.Mul(vZi(16)))), "digit relation b_i = nibble_i + c_i - 16 c_{i+1}")
			vAssert(b[i] >= -8 && b[i] < 8, "digit in [-8, 8)")
			carry = next
		} else {
			vAssert(bi.Eq(nib.Add(carry)), "top digit = nibble_63 + c_63")
			vAssert(b[i] >= 0 && b[i] <= 8, "top digit in [0, 8] for s < 2^255")
		}
	}
}

// (2) as an induction over the prefix sums P_k = sum_{i<k} b_i 16^i with invariant
//     P_k = (s mod 16^k) - 16^k c_k:  step k: invariant_k and the digit relation give invariant_{k+1};
//     at k = 63 the top-digit relation gives P_64 = s (s < 2^256).  64 small linear obligations.
func vh_C19_ContractWindow4_telescope() {
	v := vZfresh("s")
	vAssume(vZi(0).Le(v) && v.Lt(vZi(1).Shl(256)))
	for k := 0; k < 64; k++ {
		pk := vZi(1).Shl(4 * k)
		P, b := vZfresh("P"+vI2(k)), vZfresh("b"+vI2(k))
		c := vZite(vBool("c"+vI2(k)), vZi(1), vZi(0))
		c2 := vZite(vBool("d"+vI2(k)), vZi(1), vZi(0))
		if k == 0 {
			vAssume(c.Eq(vZi(0)))
		}
		nib := v.Div(pk).Mod(vZi(16))
		vAssume(P.Eq(v.Mod(pk).Sub(pk.Mul(c))))
		if k < 63 {
			vAssume(b.Eq(nib.Add(c).Sub(c2.Mul(vZi(16)))))
			vAssert(P.Add(b.Mul(pk)).Eq(v.Mod(pk.Mul(vZi(16))).Sub(pk.Mul(vZi(16)).Mul(c2))), "prefix-sum invariant is preserved by the digit relation")
		} else {
			vAssume(b.Eq(nib.Add(c)))
			vAssert(P.Add(b.Mul(pk)).Eq(v), "the full digit sum equals s")
		}
	}
	vReach("induction steps stated")
}

func vI2(k int) string { return string(rune('A'+k/26)) + string(rune('a'+k%26)) }

// ---------------------------------------------------------------------------
// contract of reduce (proved by vh_C19_reduce), used when the callers are lifted to integer arithmetic

var vReduceCalls int

func vc_reduce(r *Bignum256) {
	vAssert(vInBarrettForm(r), "reduce precondition: limbs in Barrett form")
	L := vZc(vL)
	v := vVal(r)
	vReduceCalls++
	out := vFreshScalar("red" + string(rune('a'+vReduceCalls)) + "_")
	vAssume(vInBarrettForm(&out))
	vAssume(vVal(&out).Eq(vZite(v.Lt(L), v, v.Sub(L))))
	*r = out
}

// contract of barrettReduce (vh_C19_barrettReduce): for q1 = x >> 248 and r1 = x mod 2^264 of one x < 2^512, both
// in Barrett form, the result is the canonical x mod L in reduced form
func vc_barrett(r, q1, r1 *Bignum256) {
	// x = q1 2^248 + (r1 mod 2^248); the low 248 bits of r1 are taken limb-wise (the limb that bit 248 falls
	// into is masked on its own), which keeps the integer form of x free of a division of the whole sum
	idx, rem := 248/BitsPerLimb, uint(248%BitsPerLimb)
	low := vZi(0)
	for i := 0; i < idx; i++ {
		low = low.Add(vElemZ(r1[i]).Shl(BitsPerLimb * i))
	}
	low = low.Add(vElemZ(r1[idx] & (1<<rem - 1)).Shl(BitsPerLimb * idx))
	x := vVal(q1).Mul(vZi(1).Shl(248)).Add(low)
	vBarrettIn = x
	if vBarrettHasExpect {
		// the caller's own arithmetic first: the value handed over is the exact one (then used as a lemma)
		vAssert(x.Eq(vBarrettExpect), "the value handed to barrettReduce is exact")
		vAssume(x.Eq(vBarrettExpect))
	}
	vAssert(vInBarrettForm(q1), "barrettReduce precondition: q1 limbs in Barrett form")
	vAssert(vInBarrettForm(r1), "barrettReduce precondition: r1 limbs in Barrett form")
	vAssert((r1[idx]>>rem) == (q1[0]&0xffff), "barrettReduce precondition: q1 and r1 agree on their 16 shared bits")
	out := vFreshScalar("bar_")
	vAssume(vInReducedForm(&out))
	vAssume(vVal(&out).Eq(x.Mod(vZc(vL))))
	*r = out
}

var vBarrettExpect vZ
var vBarrettHasExpect bool
var vBarrettIn vZ

// C19: Expand of a 64-byte string is the exact residue of its little-endian value, canonical
func vh_C19_Expand64() {
	vReplace(barrettReduce, vc_barrett)
	b := vBytes("b", 64)
	vBarrettExpect, vBarrettHasExpect = vZle(b), true
	var s Bignum256
	Expand(&s, b)
	vReach("Expand(64 bytes) returned")
	L := vZc(vL)
	vAssert(vVal(&s).Eq(vZle(b).Mod(L)), "Expand(64 bytes) = value mod L")
	vAssert(vInReducedForm(&s), "output limbs in reduced form")
}

func vh_C19_Expand32() {
	vReplace(reduce, vc_reduce)
	b := vBytes("b", 32)
	var s Bignum256
	Expand(&s, b)
	vReach("Expand(32 bytes) returned")
	L := vZc(vL)
	vAssert(vVal(&s).Eq(vZle(b).Mod(L)), "Expand(32 bytes) = value mod L")
	vAssert(vInReducedForm(&s), "output limbs in reduced form")
}

// Mul(x, y) = x y mod L for all x, y < 2^253 in reduced form (the property asks for [0, L)^2; the 32-bit routine
// keeps only 22 bits of the top quotient limb, so it is exact precisely because its callers pass reduced scalars)
func vh_C19_Mul() {
	vReplace(barrettReduce, vc_barrett)
	x, y := vFreshScalar("x"), vFreshScalar("y")
	vAssume(vInReducedForm(&x))
	vAssume(vInReducedForm(&y))
	vAssume(x[LimbSize-1] < 1<<(vTopBits-3))
	vAssume(y[LimbSize-1] < 1<<(vTopBits-3))
	L := vZc(vL)
	vBarrettExpect, vBarrettHasExpect = vVal(&x).Mul(vVal(&y)), true
	vReach("operands below 2^253")
	var r Bignum256
	Mul(&r, &x, &y)
	vAssert(vVal(&r).Eq(vVal(&x).Mul(vVal(&y)).Mod(L)), "Mul = (x * y) mod L")
	vAssert(vInReducedForm(&r), "output limbs in reduced form")
}

// ---------------------------------------------------------------------------
// C16/C19: sliding-window recoding.  N symbolic scalar bits are placed at an offset (the remaining bits are
// zero); the real ContractSlidingWindow runs to completion with fork-and-merge execution, and the result must
// represent exactly the input: sum r_i 2^i == s, every non-zero digit odd with |r_i| <= 2^(w-1) - 1, and (for the
// double-base multiplication) at most one non-zero digit in any w consecutive positions is implied by oddness
// and the magnitude bound.  Offsets: 0, the limb boundaries, and the top end (bits up to 252, since scalars
// are below L < 2^253).
var vSlideOffsets = [...]int{0, 50, 106, 162, 218, -1}

// run of concrete one bits placed directly above the symbolic bits (0 = none): a carry out of the symbolic window
// then ripples through the whole run, across limb boundaries
var vSlideRuns = [...]int{0, 0, 0, 0, 0, 0, 60, 100}
var vSlideRunOff = [...]int{0, 0, 0, 0, 0, 0, 0, 130}

func vSlidingCase(window uint) {
	vPrune(true) // digits above the symbolic region are semantically zero: infeasible sides of a fork are pruned by the solver
	n := 8
	if vTier() == 1 {
		n = 14
	}
	c := vCase(0, len(vSlideRuns)-1)
	off, run := 0, vSlideRuns[c]
	if run == 0 {
		off = vSlideOffsets[c]
		if off < 0 {
			off = 253 - n
		}
	} else {
		off = vSlideRunOff[c]
	}
	vNote("sliding-window recoding: quick 8 / thorough 14 symbolic bits at offsets {0, 50, 106, 162, 218, 253-N}, plus the symbolic bits below a run of 60 (offset 0) and 100 (offset 130) one bits (carry ripple through a long run), windows 5 and 7; all other scalar bits zero")
	bits := vU32("bits")
	vAssume(bits < 1<<uint(n))
	// place the bits: build the 32-byte little-endian scalar and expand it with the real ExpandRaw
	var b [32]byte
	v := uint64(bits)
	for i := 0; i < n; i++ {
		if (v>>uint(i))&1 != 0 {
			b[(off+i)/8] |= 1 << uint((off+i)%8)
		}
	}
	want := vZu(uint64(bits)).Shl(off)
	for i := 0; i < run; i++ {
		b[(off+n+i)/8] |= 1 << uint((off+n+i)%8)
		want = want.Add(vZi(1).Shl(off + n + i))
	}
	var s Bignum256
	ExpandRaw(&s, b[:])
	var r [256]int8
	ContractSlidingWindow(&r, &s, window)
	vReach("ContractSlidingWindow returned")
	sum := vZi(0)
	ok := true
	m := int8(1)<<(window-1) - 1
	for i := 0; i < 256; i++ {
		sum = sum.Add(vZi(int(r[i])).Shl(i))
		ok = ok && (r[i] == 0 || (r[i]&1 == 1 && r[i] <= m && r[i] >= -m))
	}
	vAssert(sum.Eq(want), "sum of digits * 2^i == s")
	vAssert(ok, "non-zero digits are odd and bounded by 2^(w-1) - 1")
}

func vh_C19_ContractSlidingWindow5() { vSlidingCase(5) }
func vh_C19_ContractSlidingWindow7() { vSlidingCase(7) }
