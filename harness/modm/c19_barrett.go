package modm

// ---------------------------------------------------------------------------
// C19: barrettReduce, staged.  The routine is one basic block; the contract function installed for its first
// call of reduce inspects the caller's locals q3 and r2 (vCallerLocal) and discharges, each as its own
// obligation on the real code:
//   A  q3 is a quotient estimate with limbs in range:   q3 L <= x < (q3 + 3) L
//   B  r2 is the low part of the product, for ARBITRARY q3 limbs in range (q3 generalised):
//                                                       r2 = q3 L mod 2^264, limbs in Barrett form
//   C  the borrow chain is exact, for ARBITRARY r2 in Barrett form (r2 generalised):
//                                                       r = (r1 - r2) mod 2^264, limbs in Barrett form
// The proved facts are then carried forward on fresh symbols (a sound weakening: the fresh value is constrained by
// nothing but what was proved) and composed by small integer lemmas that no longer mention the limb code:
//   D1 x mod 2^264 = r1          D2 (r1 - (Q3 L mod 2^264)) mod 2^264 = x - Q3 L, which lies in [0, 3L)
//   D3 two conditional subtractions of L (the reduce contract, vh_C19_reduce) give x mod L.
// x ranges over all of [0, 2^512): q1 = x >> 248 and r1 = x mod 2^264 are arbitrary limb vectors in Barrett
// form that agree on their 16 shared bits.
var vBarrettX, vBarrettR1 vZ
var vBarrettStage int

func vPow(k int) vZ { return vZi(1).Shl(k) }

func vFullLimbsAll(x *Bignum256) bool {
	ok := true
	for i := 0; i < LimbSize; i++ {
		ok = ok && x[i] < 1<<BitsPerLimb
	}
	return ok
}

func vc_reduceStaged(r *Bignum256) {
	L := vZc(vL)
	M := vPow(264)
	if vBarrettStage == 0 {
		vBarrettStage = 1
		q3 := vCallerLocal("q3").(*Bignum256)
		r2 := vCallerLocal("r2").(*Bignum256)
		x, vr1 := vBarrettX, vBarrettR1
		// ---- A
		vq3 := vVal(q3)
		vAssert(vq3.Mul(L).Le(x), "stage A: q3 L <= x")
		vAssert(x.Lt(vq3.Add(vZi(3)).Mul(L)), "stage A: x < (q3 + 3) L")
		vAssert(vFullLimbsAll(q3), "stage A: q3 limbs below 2^BitsPerLimb")
		// ---- B, for arbitrary q3 limbs in range
		mark := vAssumeMark()
		vAssume(vFullLimbsAll(q3))
		vGeneralize(q3, LimbSize, "gq3_")
		vAssert(vVal(r2).Eq(vVal(q3).Mul(L).Mod(M)), "stage B: r2 = q3 L mod 2^264")
		vAssert(vInBarrettForm(r2), "stage B: r2 limbs in Barrett form")
		vGeneralizeOff()
		vAssumeReset(mark)
		// ---- C, for arbitrary r2 in Barrett form
		vAssume(vInBarrettForm(r2))
		vGeneralize(r2, LimbSize, "gr2_")
		vAssert(vVal(r).Eq(vr1.Sub(vVal(r2)).Mod(M)), "stage C: r = (r1 - r2) mod 2^264")
		vAssert(vInBarrettForm(r), "stage C: r limbs in Barrett form")
		vGeneralizeOff()
		vAssumeReset(mark)
		// ---- D: composition on fresh symbols
		Q3 := vZfresh("Q3")
		vAssume(vZi(0).Le(Q3))
		vAssume(Q3.Mul(L).Le(x))
		vAssume(x.Lt(Q3.Add(vZi(3)).Mul(L)))
		vAssert(x.Mod(M).Eq(vr1), "lemma D1: x mod 2^264 = r1")
		vAssume(x.Mod(M).Eq(vr1))
		d := x.Sub(Q3.Mul(L))
		vAssert(vr1.Sub(Q3.Mul(L).Mod(M)).Mod(M).Eq(d), "lemma D2: (r1 - (q3 L mod 2^264)) mod 2^264 = x - q3 L")
		rf := vFreshScalar("rpre")
		vAssume(vInBarrettForm(&rf))
		vAssume(vVal(&rf).Eq(d))
		*r = rf
	}
	vc_reduce(r)
}

func vh_C19_barrettReduce() {
	q1, r1 := vFreshScalar("q"), vFreshScalar("r")
	vAssume(vInBarrettForm(&q1))
	vAssume(vInBarrettForm(&r1))
	vq1, vr1 := vVal(&q1), vVal(&r1)
	vAssume(vr1.Div(vPow(248)).Eq(vq1.Mod(vPow(16)))) // the 16 bits q1 and r1 share
	x := vq1.Mul(vPow(248)).Add(vr1.Mod(vPow(248)))
	vBarrettX, vBarrettR1, vBarrettStage = x, vr1, 0
	vReduceCalls = 0
	vReplace(reduce, vc_reduceStaged)
	vNote("barrettReduce for every x < 2^512 (q1 = x >> 248, r1 = x mod 2^264: arbitrary consistent limb vectors), staged at the first reduce call: quotient estimate, low product (q3 generalised), borrow chain (r2 generalised), integer composition lemmas")
	vReach("consistent inputs")
	var r Bignum256
	barrettReduce(&r, &q1, &r1)
	L := vZc(vL)
	vAssert(vVal(&r).Eq(x.Mod(L)), "barrettReduce = x mod L")
	vAssert(vVal(&r).Lt(L), "result below L")
	vAssert(vInReducedForm(&r), "result limbs in reduced form")
}
