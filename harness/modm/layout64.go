// +build amd64 force64bit
// +build !force32bit

package modm

func vElem(name string) Element { return Element(vU64(name)) }
func vElemZ(x Element) vZ       { return vZu(uint64(x)) }
