#!/bin/bash
# usage: try_seed.sh <seed-out-dir> <property-id> [check args...]
# Applies <dir>/patch.diff to /repo, runs the quick check of the property, reverts /repo.
d="$1"; p="$2"; shift 2
cd /repo || exit 2
if [ -n "$(git status --porcelain)" ]; then echo "/repo not clean"; exit 2; fi
git apply "$d/patch.diff" || { echo "patch does not apply"; exit 2; }
cd /verif && timeout 3000 ./check "$p" quick -evidence-dir /tmp/ev_seed "$@"; rc=$?
git -C /repo checkout -- . ; git -C /repo clean -fdq
echo "exit=$rc"
