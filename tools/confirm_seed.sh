#!/bin/bash
# usage: confirm_seed.sh <seed-out-dir> <demo-file> <pkg-rel-dir> <test-regexp> [tags]
# Confirms in a scratch worktree: suite passes with the change, demo fails with it and passes without it.
d="$1"; demo="$2"; rel="$3"; re="$4"; tags="$5"
export GOFLAGS=-mod=mod GOPROXY=off GOSUMDB=off GOTOOLCHAIN=local
w=/tmp/confirm_$$; git -C /repo worktree add -q --detach $w HEAD || exit 2
cd $w
cp "$d/$demo" "$w/$rel/" 
echo "== demo on unmodified tree (must PASS)"; go test -count=1 ${tags:+-tags $tags} -run "$re" ./$rel 2>&1 | tail -3
git apply "$d/patch.diff" || echo "PATCH DOES NOT APPLY"
echo "== demo with change (must FAIL)"; go test -count=1 ${tags:+-tags $tags} -run "$re" ./$rel 2>&1 | tail -5
rm "$w/$rel/$demo"
echo "== existing suite with change (must PASS)"; go test -count=1 ./... 2>&1 | tail -6; go test -count=1 -tags noasm ./... 2>&1 | grep -v "no test files" | tail -4; go test -count=1 -tags force32bit ./... 2>&1 | grep -v "no test files" | tail -4
cd /; git -C /repo worktree remove --force $w
