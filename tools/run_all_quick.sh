#!/bin/sh
# run every registered quick command exactly as MANIFEST.json lists it (with leaf re-runs); rewrites evidence/
cd "$(dirname "$0")/.." || exit 2
for p in C01 C02 C03 C04 C05 C06 C07 C08 C09 C10 C11 C12 C13 C14 C15 C16 C17 C18 C19 C20; do
  start=$(date +%s)
  out=$(./check $p quick 2>&1); rc=$?
  echo "$out" | grep "^property\|VIOLATION\|UNDISCHARGED\|ENGINE-FAULT\|KNOWN" | cut -c1-300 | head -6
  echo "== $p exit=$rc wall=$(( $(date +%s) - start ))s"
done
