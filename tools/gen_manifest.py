#!/usr/bin/env python3
# Regenerates /verif/MANIFEST.json from the table below (claimed properties) and properties.jsonl.
import json, os
here = os.path.dirname(os.path.dirname(os.path.abspath(__file__)))
props = [json.loads(l)['id'] for l in open(os.path.join(here, 'properties.jsonl'))]

TECH = "bounded symbolic execution of the real go/ssa (own executor) into SMT-LIB; z3 5.1.0 / cvc5 1.0 decide every obligation; models replayed natively"
NOTE = "trusted: go/ssa lowering + executor semantics (validated per run by native replay of every reported model and by the concrete-vector self-test T00), solver answers (unknown/timeout never counts as success), Go toolchain and stdlib; "

claimed = {
 "C01": ("verify/VerifyWithOptions inlined (length check, S<L via scMinimal, decode, small-order gates, hash input as a byte sequence, final comparison); cut callees are uninterpreted functions, so equality with the documented predicate is proved for all key/signature bytes, all messages and every interpretation of the cut callees; signature lengths are case-split",
         "the meaning of the cut callees (decode, [8], neutral test, double-base mult, reduction mod L) is the subject of C09/C10/C16/C19; SHA-512 is an uninterpreted function of its input sequence"),
 "C02": ("NewKeyFromSeed/GenerateKey/Sign/PrivateKey.Sign inlined; equality with the RFC 8032 5.1.5/5.1.6 formulas over the same cut symbols for all seeds, keys, messages (opaque), contexts (opaque, length 1..255) and all six ways of passing options; entropy reader modelled by contract and shown never to be read",
         "scalar and group leaves (reduction, mul/add mod L, fixed-base mult, Pack) are uninterpreted here (C16/C19/C10); [a mod L]B = [a]B relies on B having order L"),
 "C04": ("scMinimal executed symbolically on all 2^256 scalar strings against LE256(s) < L (bit-vector, no bound); the verifier skeletons share the obligation",
         "none beyond the common base for the scMinimal obligation"),
 "C05": ("same encoding as C01 with the ZIP-215 flag symbolic: verdict equals the predicate selected by the flag; default acceptance implies ZIP-215 acceptance",
         "as C01"),
 "C06": ("VerifyBatch inlined with all its closures, chunk loop, early exits and the per-signature fallback; per-entry results equal the documented single-verification predicate of each entry, summary = conjunction, one result per entry, no panic, error only for entropy failure; entries fully symbolic, one malformed entry (6 kinds) at first/middle/last position; batch lengths quick {0..6,8,9}, thorough up to 131 (0, 1 and 2 full chunks +/- remainders)",
         "assumption A1 (batch equation over the documented points/scalars holds iff every entry's own cofactored equation holds: layer-2 algebra, exact multi-scalar multiplication C17, and the 2^-120 probabilistic soundness of random linear combination, which is not a property of the code); A2: decodability is independent of the sign bit (C10); cut callees as in C01"),
 "C07": ("writeDom2 executed against a recording hash stub: emitted bytes = prefix||flag||len||ctx for all contexts (opaque content, every length) ; injectivity / prefix-freeness of (flag, ctx) -> hash input decided in the sequence theory; the dom2 prefix string run through the real decoder concretely (not a point); context / digest-length / hash-selector refusal contract of Sign, VerifyWithOptions and VerifyBatch for symbolic lengths and selectors",
         "hash-input separation is the code's share of the statement; 'never accepted under a different pair' additionally needs SHA-512 to behave as a random oracle and excludes ZIP-215 with a small-order key"),
 "C13": ("every exported entry point (Verify, VerifyWithOptions, Sign, PrivateKey.Sign, NewKeyFromSeed, VerifyBatch, X25519) executed with argument lengths case-split over {0,31,32,33,63,64,65,80,...}, nil slices, spare capacity, symbolic contents, hash selector and context length symbolic; panic condition == documented condition; the store log contains no caller-supplied object",
         "heavy callees cut as in C01/C02 with their own length preconditions asserted at the call site; the generic X25519 ladder is external code (uninterpreted)"),
 "C14": ("GenerateKey/Public/Seed/Equal executed symbolically: exactly one 32-byte ReadFull, error => no key, result = NewKeyFromSeed(bytes read), accessors return fresh objects (object identity in the memory model), Equal <=> same type, same length, all bytes equal, for all 64-byte contents and several lengths",
         "NewKeyFromSeed's own correctness is C02; reader modelled by the io.ReadFull contract"),
 "C18": ("every field function of both limb layouts (Add, AddAfterBasic, AddReduce, Sub, SubAfterBasic, SubReduce, Neg, Mul, Square, SquareTimes step, Expand, Contract, SwapConditional, Copy) executed symbolically for all limbs inside the stated input class; the bit-vector terms are lifted to integer arithmetic in a linear normal form (every no-wrap decision is a solver-discharged side condition) and the exact residue and the output limb bounds are proved",
         "input classes: limbs below 2^(bits+3) (64-bit Mul/Square: 2^54) resp. 2^(bits+1) for the 32-bit Mul/Square; Recip / PowTwo252m3 chains are covered through C10"),
 "C19": ("reduce, Add, Expand (16 and 32 bytes), ExpandRaw/Contract round trip and the signed radix-16 recoding (per-digit relation on the real output for all scalars below 2^255 + telescoping induction) on both limb layouts",
         "Expand(64 bytes), Mul and barrettReduce: monolithic obligations run in the thorough tier only and are reported undischarged if the solvers do not finish; sliding-window recodings: see C16"),
 "C20": ("key generation, signing (3 variants), X25519 base-point path, private-key conversion and comparison executed symbolically down to the limb code and the translated assembly selector with secret inputs tainted; every branch condition, memory index, shift amount, division operand and variable-time primitive operand is checked for dependence on a secret symbol",
         "instruction-level timing and the stdlib (SHA-512, subtle) are assumed constant-time; taint is syntactic over simplified terms (a semantically public term that mentions a secret would be flagged, never the converse)"),
}

m = {
 "version": 1,
 "setup_cmd": "./setup.sh",
 "hooks": {"guard": "verif", "enable": "none needed: harness files are injected as in-package overlay files (go/packages Overlay for the encoder, go test -overlay for replay); no hook is committed to /repo", "baseline_off_cmd": "cd /repo && go test -vet=off -count=1 ./...", "source_commits": [], "add_only": True},
 "engines": [{"name": "verif-engine", "path": "/verif/engine", "serves_properties": sorted(claimed), "kind_free_text": "bounded symbolic executor for go/ssa (written in Go) + translator for the one amd64 assembly routine; obligations in SMT-LIB2 decided by z3 5.1.0 / cvc5 1.0; native replay of models through go test -overlay and a math/big reference model"}],
 "checks": [],
 "not_applicable": [],
 "notes": "Every check regenerates its encoding from /repo's working tree. ./check <id> quick|thorough. Self-test of the executor on a concrete vector in all six build configurations: ./check T00 quick -config '<cfg>'.",
}
for p in props:
    if p in claimed:
        text, note = claimed[p]
        m["checks"].append({
            "property_id": p, "quick_cmd": "./check %s quick" % p, "thorough_cmd": "./check %s thorough" % p,
            "evidence_file": "/verif/evidence/%s.json" % p,
            "replay_cmd_template": "sh {path}/run.sh",
            "engine": "verif-engine",
            "level_claimed": {"category": "model_checking", "text": "bounded symbolic execution; within the stated bounds the SMT solver decides each obligation for all inputs: " + text, "design_ref": "DESIGN.md §5 " + p},
            "level_note": NOTE + note,
            "technique": TECH})
    else:
        m["not_applicable"].append({"property_id": p, "reason": "check not built yet in this revision (work in progress; see DESIGN.md §8 build order)"})
json.dump(m, open(os.path.join(here, 'MANIFEST.json'), 'w'), indent=1)
print("claimed:", sorted(claimed))
