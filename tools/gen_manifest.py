#!/usr/bin/env python3
# Regenerates /verif/MANIFEST.json from the table below (claimed properties) and properties.jsonl.
import json, os
here = os.path.dirname(os.path.dirname(os.path.abspath(__file__)))
props = [json.loads(l)['id'] for l in open(os.path.join(here, 'properties.jsonl'))]

TECH = "bounded symbolic execution of the real go/ssa (own executor) into SMT-LIB; z3 5.1.0 / cvc5 1.0 decide every obligation; models replayed natively"
NOTE = "trusted: go/ssa lowering + executor semantics (validated per run by native replay of every reported model and by the concrete-vector self-test T00), solver answers (unknown/timeout never counts as success), Go toolchain and stdlib; "

claimed = {
 "C01": ("verify/VerifyWithOptions inlined (length check, S<L via scMinimal, decode, small-order gates, hash input as a byte sequence, final comparison); cut callees are uninterpreted functions, so equality with the documented predicate is proved for all key/signature bytes, all messages and every interpretation of the cut callees; signature lengths and context lengths (opaque 1..255, and concrete 1 / 255 bytes) are case-split; the leaf properties the cut contracts rest on (C09, C10, C16, C18, C19) are re-run as part of the check",
         "SHA-512 is an uninterpreted function of its input sequence; trusted mathematics: structure of E(F_p), completeness of the addition law"),
 "C02": ("NewKeyFromSeed/GenerateKey/Sign/PrivateKey.Sign inlined; equality with the RFC 8032 5.1.5/5.1.6 formulas over the same cut symbols for all seeds, keys, messages (opaque), contexts and all six ways of passing options; entropy reader modelled by contract and shown never to be read; leaf properties C10, C16, C18, C19 re-run",
         "[a mod L]B = [a]B relies on B having order L"),
 "C03": ("arithmetic lemmas in Z/8L (group equation for S = (r + h a) mod L, clamped scalar never 0 mod L, [8][r]B = O iff r = 0), batch membership for lengths 3, 7 and 68, plus the C01/C02/C05 skeletons and the leaf suites re-run; the monolithic sign-then-verify composition over integer-interpreted cuts runs in the thorough tier",
         "composition argument: C02 (what Sign computes) + lemmas + C01/C05/C06 (what the verifiers accept); E(F_p) cyclic of order 8L with B of order L is trusted; the nonce-is-zero case is excluded as in the property"),
 "C04": ("scMinimal executed symbolically on all 2^256 scalar strings against LE256(s) < L (no bound); every single-signature mode and the batch path reject S >= L for all other inputs; S in [2^252, L) treated like any S; uniqueness lemma in Z/8L",
         "none beyond the common base for the scMinimal obligation; batch clause under assumption A1 of C06"),
 "C05": ("same encoding as C01 with the ZIP-215 flag symbolic: verdict equals the predicate selected by the flag for all variants; default acceptance implies ZIP-215 acceptance; the batch path gates both small-order checks with the flag",
         "as C01"),
 "C06": ("VerifyBatch inlined with all its closures, chunk loop, early exits and the per-signature fallback; per-entry results equal the documented single-verification predicate of each entry, summary = conjunction, one result per entry, no panic, error only for entropy failure; entries fully symbolic, one malformed entry (8 kinds) at first/middle/last position; batch lengths quick {0..6,8,9} fully symbolic and {68,70,131} with the first chunk(s) replicated, thorough up to 131 fully symbolic; the in-place multi-scalar multiplication is modelled as clobbering its arrays",
         "assumption A1 (the batch equation over the documented points/scalars holds iff every entry's own cofactored equation holds: batch algebra, exact multi-scalar multiplication (C17) and the 2^-120 probabilistic soundness of random linear combination, which is not a property of the code); A2: decodability is independent of the sign bit (C10)"),
 "C07": ("writeDom2 executed against a recording hash stub: emitted bytes = prefix||flag||len||ctx for opaque contexts of every length and for concrete 0/1/2/254/255-byte contexts; injectivity / prefix-freeness of (flag, ctx) -> hash input decided in the sequence theory; the dom2 prefix string run through the real decoder concretely (not a point); context / digest-length / hash-selector refusal contract of Sign, VerifyWithOptions and VerifyBatch for symbolic lengths and selectors",
         "hash-input separation is the code's share of the statement; 'never accepted under a different pair' additionally needs SHA-512 to behave as a random oracle and excludes ZIP-215 with a small-order key"),
 "C08": ("every leaf suite re-run per build configuration (C18/C19 on both layouts and with 32-bit int; the group-law, decoding, small-order and selector suites C09/C10/C16 in all six configurations: default with the translated assembly selector, noasm, force32bit, appengine, force32bit+appengine, GOARCH=386); the constant-time selector of each configuration proved equal to the table rows for every digit; one concrete key-generation / decode / double-scalar-multiplication vector executed through the real code of every configuration",
         "two configurations are observationally identical because each satisfies the same value-level contracts and outputs are canonical byte strings; compiler/assembler correctness and real 32-bit hardware are outside"),
 "C09": ("CofactorMultiply = [8] (three doublings over the group-abstract model), IsNeutralVartime <=> X = 0 and Y = Z mod p for every in-class representation, CofactorEqual = IsNeutral([8](P-Q)), geSub / ProjectiveToExtended against the Edwards law; the real small-order test run concretely on all 14 torsion encodings (refused) and on [k]B + T for k in {1,2,L-1} and all eight T (not refused); the batch call sites (n = 5, 68)",
         "'[8]P = O iff P is one of eight points' and completeness of the addition law are trusted group theory"),
 "C10": ("UnpackNegativeVartime / UnpackVartime under the field-abstract model with each decoder path explored separately: accept => genuine root with the requested parity, Y = y, Z = 1, T = XY, input not modified; Pack = canonical y and parity of the canonical x; exponent tracking through the real Recip / PowTwo252m3 chains (z^(p-2), z^((p-5)/8)); C18 re-run",
         "'a root exists => one of the two tests passes' (p = 5 mod 8) and Fermat inversion are trusted; the reject direction is by construction of the decoder's own tests"),
 "C11": ("x25519(): pointer-identity fast path, generic path = ladder (uninterpreted), error and no output exactly for an all-zero result; ScalarBaseMult: clamp exact, raw expansion without reduction, scalar < 2^255, u = canonical((Y+Z)/(Z-Y)) incl. Z = Y; the exported base point constant; leaf suites C16, C18, C19 re-run",
         "the generic ladder is golang.org/x/crypto (external code, assumed RFC 7748); the Edwards-Montgomery map being a group isomorphism is trusted"),
 "C12": ("EdPrivateKeyToX25519 = clamp(SHA-512(seed)[:32]) in a fresh slice; EdPublicKeyToX25519 fails exactly for undecodable keys, returns canonical((1+y)/(1-y)) and 0 at y = 1 (both cases explored); commutation identity (Y+Z)/(Z-Y) = (1+y)/(1-y) for y = Y/Z",
         "decoding itself is C10; inverse-pair rewriting z*w = 1 (mod p) is applied only under 'mod p'"),
 "C13": ("every exported entry point executed with argument lengths case-split over {0,31,32,33,63,64,65,80,...}, nil slices, spare capacity, symbolic contents, hash selector and context length symbolic; panic condition == documented condition; VerifyBatch with every kind of malformed entry and mismatched counts never panics; the store log contains no caller-supplied object",
         "heavy callees cut as in C01/C02 with their own length preconditions asserted at the call site; the generic X25519 ladder is external code (uninterpreted)"),
 "C14": ("GenerateKey/Public/Seed/Equal executed symbolically: exactly one 32-byte io.ReadFull (a bare Read is modelled as delivering any count), error => no key, result = NewKeyFromSeed(bytes read), accessors return fresh objects (object identity in the memory model), Equal <=> same type, same length, all bytes equal",
         "NewKeyFromSeed's own correctness is C02; reader modelled by the io.ReadFull / io.Reader contracts"),
 "C15": ("frame condition: sequences of exported calls (verify, sign, key derivation, three batches, X25519 base/generic) executed on symbolic inputs; the store log contains no caller-supplied or package-level object (every store the executor sees to such an object is an obligation), results of a call are unchanged by earlier calls",
         "interleavings are not enumerated: disjoint write sets and read-only shared state imply race freedom under the Go memory model; crypto/rand.Reader and sha512 objects are assumed goroutine-safe / call-local"),
 "C16": ("three layers on both limb layouts. (1) Group law under the field-abstract model (Add, Double, doublePartial, nielsAdd2 incl. the wide-T class, pnielsAdd, both vartime mixed additions with both signs, fullToPniels and the projective-table class chain, conversions) as polynomial congruences against the Edwards law, every field call site checked against the class C18 proves. (2) Constants: curve constants, Basepoint (y = 4/5, x even, on the curve), all 256 rows of NielsBaseMultiples and all 32 entries of nielsSlidingMultiples related to Basepoint by running the real Add/Double concretely; the constant-time selector = signed table row for every digit (C08 harness). (3) Algorithms under the group-abstract model: ScalarmultBaseNiels with all 64 radix-16 digits symbolic in [-8, 8] returns [sum b_i 16^i]B (first window checked at field level, every selection used once, Double before the second pass); DoubleScalarmultVartime returns [sum d1_i 2^i]P + [sum d2_i 2^i]B for both sliding-window digit strings symbolic at 2 (thorough: 4) consecutive positions at the top, in the middle and at the bottom, incl. the leading-zero skip loop, table index and sign computation, and the all-zero case. Recodings (radix-16 for all scalars below 2^255, sliding window at bounded placements) come from C19, re-run here",
         "longer windows of non-zero sliding digits are the same loop body repeated (outside the bound); table rows are tied to B through the proven group-law code, not an independent reference (the math/big oracle is used only to confirm counterexamples)"),
 "C17": ("heap operations from an arbitrary scalar state (heapUpdatedRoot, heapInsertNext, heapGetTop2 for heap sizes 3..9, three fixed index permutations, all limb sizes), the final double-and-add = [s]P for symbolic scalars across limb boundaries, an all-valid batch never reaches the per-signature fallback (n = 4, 5, 68)",
         "one Bos-Coster loop iteration as a unit and the termination measure are argued from the proven pieces (DESIGN.md); the probability that the loop ends before the 128-bit scalars are inserted is outside"),
 "C18": ("every field function of both limb layouts (Add, AddAfterBasic, AddReduce, Sub, SubAfterBasic, SubReduce, Neg, Mul, Square, SquareTimes step, Expand, Contract, SwapConditional, Copy) for all limbs inside the operand classes the group law produces; bit-vector terms are lifted to integer arithmetic in a linear normal form (every no-wrap decision is a solver-discharged side condition); exact residue and output limb bounds",
         "operand classes are per-limb bound vectors checked call site by call site in the C09/C10/C16 harnesses; Recip / PowTwo252m3 chains are covered by exponent tracking in C10"),
 "C19": ("reduce, Add, Expand (16 and 32 bytes), ExpandRaw/Contract round trip, the signed radix-16 recoding (per-digit relation on the real output for all scalars below 2^255 + telescoping induction) and the sliding-window recodings (bounded placements) on both limb layouts",
         "Expand(64 bytes), Mul and barrettReduce: monolithic obligations run in the thorough tier only and are reported undischarged if the solvers do not finish"),
 "C20": ("key generation, signing (3 variants), X25519 base-point path, private-key conversion and comparison executed symbolically down to the limb code and the translated assembly selector with secret inputs tainted; every branch condition, memory index, shift amount, division operand and variable-time primitive operand is checked for dependence on a secret symbol",
         "instruction-level timing and the stdlib (SHA-512, subtle) are assumed constant-time; taint is syntactic over simplified terms (a semantically public term that mentions a secret would be flagged, never the converse)"),
}

m = {
 "version": 1,
 "setup_cmd": "./setup.sh",
 "hooks": {"guard": "verif", "enable": "none needed: harness files are injected as in-package overlay files (go/packages Overlay for the encoder, go test -overlay for replay); no hook is committed to /repo", "baseline_off_cmd": "cd /repo && go test -vet=off -count=1 ./...", "source_commits": [], "add_only": True},
 "engines": [{"name": "verif-engine", "path": "/verif/engine", "serves_properties": sorted(claimed), "kind_free_text": "bounded symbolic executor for go/ssa (written in Go) + translator for the one amd64 assembly routine; obligations in SMT-LIB2 decided by z3 5.1.0 / cvc5 1.0; native replay of models through go test -overlay and a math/big reference model"}],
 "checks": [],
 "not_applicable": [],
 "notes": "Every check regenerates its encoding from /repo's working tree. ./check <id> quick|thorough. Self-test of the executor on a concrete vector in all six build configurations: ./check T00 quick -config '<cfg>'.",
}
for p in props:
    if p in claimed:
        text, note = claimed[p]
        m["checks"].append({
            "property_id": p, "quick_cmd": "./check %s quick" % p, "thorough_cmd": "./check %s thorough" % p,
            "evidence_file": "/verif/evidence/%s.json" % p,
            "replay_cmd_template": "sh {path}/run.sh",
            "engine": "verif-engine",
            "level_claimed": {"category": "model_checking", "text": "bounded symbolic execution; within the stated bounds the SMT solver decides each obligation for all inputs: " + text, "design_ref": "DESIGN.md §5 " + p},
            "level_note": NOTE + note,
            "technique": TECH})
    else:
        m["not_applicable"].append({"property_id": p, "reason": "check not built yet in this revision"})
json.dump(m, open(os.path.join(here, 'MANIFEST.json'), 'w'), indent=1)
print("claimed:", sorted(claimed))
