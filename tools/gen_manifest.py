#!/usr/bin/env python3
# Regenerates /verif/MANIFEST.json from the table below (claimed properties) and properties.jsonl.
import json, os
here = os.path.dirname(os.path.dirname(os.path.abspath(__file__)))
props = [json.loads(l)['id'] for l in open(os.path.join(here, 'properties.jsonl'))]

TECH = "bounded symbolic execution of the real go/ssa (own executor) into SMT-LIB; z3 5.1.0 / cvc5 1.0 decide every obligation; models replayed natively"
NOTE = "trusted: go/ssa lowering + executor semantics (validated per run by native replay of every reported model and by the concrete-vector self-test T00), solver answers (unknown/timeout never counts as success), Go toolchain and stdlib; "

claimed = {
 "C01": ("verify/VerifyWithOptions inlined (length check, S<L via scMinimal, decode, small-order gates, hash input as a byte sequence, final comparison); cut callees are uninterpreted functions, so equality with the documented predicate is proved for all key/signature bytes, all messages and every interpretation of the cut callees; signature lengths are case-split",
         "the meaning of the cut callees (decode, [8], neutral test, double-base mult, reduction mod L) is the subject of C09/C10/C16/C19; SHA-512 is an uninterpreted function of its input sequence"),
 "C02": ("NewKeyFromSeed/GenerateKey/Sign/PrivateKey.Sign inlined; equality with the RFC 8032 5.1.5/5.1.6 formulas over the same cut symbols for all seeds, keys, messages (opaque), contexts (opaque, length 1..255) and all six ways of passing options; entropy reader modelled by contract and shown never to be read",
         "scalar and group leaves (reduction, mul/add mod L, fixed-base mult, Pack) are uninterpreted here (C16/C19/C10); [a mod L]B = [a]B relies on B having order L"),
 "C04": ("scMinimal executed symbolically on all 2^256 scalar strings against LE256(s) < L (bit-vector, no bound); the verifier skeletons share the obligation",
         "none beyond the common base for the scMinimal obligation"),
 "C05": ("same encoding as C01 with the ZIP-215 flag symbolic: verdict equals the predicate selected by the flag; default acceptance implies ZIP-215 acceptance",
         "as C01"),
 "C20": ("key generation, signing (3 variants), X25519 base-point path, private-key conversion and comparison executed symbolically down to the limb code and the translated assembly selector with secret inputs tainted; every branch condition, memory index, shift amount, division operand and variable-time primitive operand is checked for dependence on a secret symbol",
         "instruction-level timing and the stdlib (SHA-512, subtle) are assumed constant-time; taint is syntactic over simplified terms (a semantically public term that mentions a secret would be flagged, never the converse)"),
}

m = {
 "version": 1,
 "setup_cmd": "./setup.sh",
 "hooks": {"guard": "verif", "enable": "none needed: harness files are injected as in-package overlay files (go/packages Overlay for the encoder, go test -overlay for replay); no hook is committed to /repo", "baseline_off_cmd": "cd /repo && go test -vet=off -count=1 ./...", "source_commits": [], "add_only": True},
 "engines": [{"name": "verif-engine", "path": "/verif/engine", "serves_properties": sorted(claimed), "kind_free_text": "bounded symbolic executor for go/ssa (written in Go) + translator for the one amd64 assembly routine; obligations in SMT-LIB2 decided by z3 5.1.0 / cvc5 1.0; native replay of models through go test -overlay and a math/big reference model"}],
 "checks": [],
 "not_applicable": [],
 "notes": "Every check regenerates its encoding from /repo's working tree. ./check <id> quick|thorough. Self-test of the executor on a concrete vector in all six build configurations: ./check T00 quick -config '<cfg>'.",
}
for p in props:
    if p in claimed:
        text, note = claimed[p]
        m["checks"].append({
            "property_id": p, "quick_cmd": "./check %s quick" % p, "thorough_cmd": "./check %s thorough" % p,
            "evidence_file": "/verif/evidence/%s.json" % p,
            "replay_cmd_template": "sh {path}/run.sh",
            "engine": "verif-engine",
            "level_claimed": {"category": "model_checking", "text": "bounded symbolic execution; within the stated bounds the SMT solver decides each obligation for all inputs: " + text, "design_ref": "DESIGN.md §5 " + p},
            "level_note": NOTE + note,
            "technique": TECH})
    else:
        m["not_applicable"].append({"property_id": p, "reason": "check not built yet in this revision (work in progress; see DESIGN.md §8 build order)"})
json.dump(m, open(os.path.join(here, 'MANIFEST.json'), 'w'), indent=1)
print("claimed:", sorted(claimed))
