#!/bin/sh
# run every thorough check (without re-running leaf dependencies) and print its summary
cd "$(dirname "$0")/.." || exit 2
export VERIF_NODEPS=${VERIF_NODEPS-1}
for p in ${PROPS:-C01 C02 C04 C05 C07 C09 C10 C11 C12 C13 C14 C15 C16 C18 C20 C19 C17 C03 C08 C06}; do
  echo "== $p"
  start=$(date +%s)
  timeout 7200 ./check $p thorough 2>&1 | grep -v "^WARNING" | cut -c1-300 | head -14
  echo "exit=$? wall=$(( $(date +%s) - start ))s"
done
