#!/bin/sh
# run every quick check (without re-running leaf dependencies) and print one summary line each
cd "$(dirname "$0")/.." || exit 2
export VERIF_NODEPS=${VERIF_NODEPS-1}
for p in T00 T01 C01 C02 C03 C04 C05 C07 C09 C10 C11 C12 C13 C14 C15 C16 C18 C20 C19 C17 C06 C08; do
  echo "== $p"
  timeout 3000 ./check $p quick 2>&1 | grep -v "^WARNING" | cut -c1-400 | head -12
  echo "exit=$?"
done
