#!/bin/bash
# usage: try_seed_wt.sh <seed-dir> <property-id> [check args...]
# Like try_seed.sh, but applies the patch to a scratch worktree of /repo and points the machinery at it
# (VERIF_REPO), so /repo itself is never touched and several seeds can be tried while other checks run.
d="$1"; p="$2"; shift 2
w=/tmp/tryseed_$$
git -C /repo worktree add -q --detach "$w" HEAD || exit 2
( cd "$w" && git apply "$d/patch.diff" ) || { echo "patch does not apply"; git -C /repo worktree remove --force "$w"; exit 2; }
cd /verif && VERIF_REPO="$w" timeout 3000 ./check "$p" quick -evidence-dir /tmp/ev_seed "$@"; rc=$?
git -C /repo worktree remove --force "$w"
echo "exit=$rc"
