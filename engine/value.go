package main

import (
	"fmt"
	"go/types"

	"golang.org/x/tools/go/ssa"
)

// Value is one of: *Term, *Ptr, *SliceV, *Agg, *Iface, *Closure, *StrV, Tuple, *FuncV, nil (untyped nil / zero placeholder)
type Value interface{}

type ObjKind int

const (
	ObjLocal   ObjKind = iota // Alloc / make inside the call
	ObjGlobal                 // package-level variable
	ObjCaller                 // supplied by the harness as caller-owned input
	ObjBlob                   // opaque read-only byte blob with symbolic length
	ObjStub                   // stub-owned (hash state etc.)
	ObjHarness                // harness-local (allocated by harness code itself)
)

type Object struct {
	ID    int
	Name  string
	Kind  ObjKind
	N     int // number of cells (ObjBlob: 0)
	Typ   types.Type
	Init  []Value // initial cells (shared, never mutated)
	Blob  *Blob
	Const bool // a write is a footprint violation candidate (package-level table etc.)
	owner *State
	Fresh bool // engine-created copy (e.g. []byte(string)); writes are not footprint events
}

type Blob struct {
	Name string
	Seq  *Term // Seq sort symbol
	Len  *Term // BV(intw) symbol
}

type PtrAlt struct {
	G   *Term // guard
	Obj *Object
	Off int
}

// Ptr is a guarded set of (object, offset) alternatives.  Empty = nil pointer.
// View > 0 means an unsafe reinterpretation: cells are bytes and the pointee is View bytes wide little-endian.
type Ptr struct {
	Alts []PtrAlt
	View int // >1: unsafe reinterpretation of byte cells as little-endian words of View bytes
}

type SliceV struct {
	P   *Ptr // to element 0 (nil slice: P.Alts empty)
	Len *Term
	Cap *Term
}

type Agg struct {
	Elems []Value // flattened leaf cells
}

type Iface struct {
	Dyn types.Type // nil => nil interface
	Val Value
	Nil *Term // optional: the interface is nil iff Nil (when Dyn != nil)
}

type Closure struct {
	Fn   *ssa.Function
	Bind []Value
}

type FuncV struct {
	Fn *ssa.Function
	Bi *ssa.Builtin
}

type StrV struct {
	Bytes  []*Term // concrete-length string
	Blob   *Blob   // or opaque blob with symbolic length
	Opaque bool    // content irrelevant (messages)
}

type Tuple []Value

// Poison is the result of merging incompatible cells (dead locals holding abstract values on one path only).
// Any use is an engine fault.
type Poison struct{ Why string }

// abstract named types recognised in harness code
func abstractSort(t types.Type) (Sort, bool) {
	if n, ok := t.(*types.Named); ok {
		switch n.Obj().Name() {
		case "vZ":
			return IntSort, true
		case "vPt", "vSc", "vFe":
			// abstract handles are 64-bit tokens: they merge with ordinary limb cells on paths that
			// never wrote them, and EUF has the small-model property (a countermodel needs at most as
			// many elements as there are terms), so 2^64 tokens lose no generality
			return BV(64), true
		case "vSeq":
			return SeqSort, true
		}
	}
	return Sort{}, false
}

type layoutInfo struct {
	n int
}

func (e *Engine) cellCount(t types.Type) int {
	if _, ok := abstractSort(t); ok {
		return 1
	}
	switch u := t.Underlying().(type) {
	case *types.Array:
		return int(u.Len()) * e.cellCount(u.Elem())
	case *types.Struct:
		n := 0
		for i := 0; i < u.NumFields(); i++ {
			n += e.cellCount(u.Field(i).Type())
		}
		return n
	default:
		return 1
	}
}

func (e *Engine) fieldOffset(st *types.Struct, idx int) int {
	n := 0
	for i := 0; i < idx; i++ {
		n += e.cellCount(st.Field(i).Type())
	}
	return n
}

func (e *Engine) intWidth() int { return e.intw }

func (e *Engine) basicWidth(b *types.Basic) (w int, signed bool, ok bool) {
	switch b.Kind() {
	case types.Bool, types.UntypedBool:
		return 0, false, false
	case types.Int8:
		return 8, true, true
	case types.Int16:
		return 16, true, true
	case types.Int32, types.UntypedRune:
		return 32, true, true
	case types.Int64:
		return 64, true, true
	case types.Int, types.UntypedInt:
		return e.intw, true, true
	case types.Uint8:
		return 8, false, true
	case types.Uint16:
		return 16, false, true
	case types.Uint32:
		return 32, false, true
	case types.Uint64:
		return 64, false, true
	case types.Uint, types.Uintptr:
		return e.intw, false, true
	}
	return 0, false, false
}

func (e *Engine) typeWidth(t types.Type) (int, bool) {
	if b, ok := t.Underlying().(*types.Basic); ok {
		w, s, ok := e.basicWidth(b)
		if !ok {
			panic(unsupported("typeWidth of " + t.String()))
		}
		return w, s
	}
	panic(unsupported("typeWidth of " + t.String()))
}

// zero value for type t as flattened cells
func (e *Engine) zeroCells(t types.Type, out []Value) []Value {
	if s, ok := abstractSort(t); ok {
		switch s.K {
		case SInt:
			return append(out, e.st.Inti(0))
		case SSeq:
			return append(out, e.st.SeqEmpty())
		case SBV:
			return append(out, e.st.BVu(0, s.W))
		default:
			return append(out, e.st.Sym("zero_"+s.Name, s))
		}
	}
	switch u := t.Underlying().(type) {
	case *types.Array:
		for i := 0; i < int(u.Len()); i++ {
			out = e.zeroCells(u.Elem(), out)
		}
		return out
	case *types.Struct:
		for i := 0; i < u.NumFields(); i++ {
			out = e.zeroCells(u.Field(i).Type(), out)
		}
		return out
	}
	return append(out, e.zeroLeaf(t))
}

func (e *Engine) zeroLeaf(t types.Type) Value {
	switch u := t.Underlying().(type) {
	case *types.Basic:
		switch {
		case u.Info()&types.IsBoolean != 0:
			return e.st.False()
		case u.Info()&types.IsInteger != 0:
			w, _ := e.typeWidth(t)
			return e.st.BVu(0, w)
		case u.Info()&types.IsString != 0:
			return &StrV{}
		case u.Kind() == types.UnsafePointer:
			return &Ptr{}
		}
	case *types.Pointer:
		return &Ptr{}
	case *types.Slice:
		z := e.st.BVu(0, e.intw)
		return &SliceV{P: &Ptr{}, Len: z, Cap: z}
	case *types.Interface:
		return &Iface{}
	case *types.Signature:
		return &FuncV{}
	case *types.Map, *types.Chan:
		return &Ptr{}
	}
	panic(unsupported("zero value of " + t.String()))
}

func (e *Engine) zeroValue(t types.Type) Value {
	cells := e.zeroCells(t, nil)
	if e.isAggregate(t) {
		return &Agg{Elems: cells}
	}
	return cells[0]
}

func (e *Engine) isAggregate(t types.Type) bool {
	if _, ok := abstractSort(t); ok {
		return false
	}
	switch t.Underlying().(type) {
	case *types.Array, *types.Struct:
		return true
	}
	return false
}

type Unsupported struct{ Msg string }

func (u *Unsupported) Error() string { return "unsupported: " + u.Msg }
func unsupported(format string, a ...interface{}) *Unsupported {
	return &Unsupported{Msg: fmt.Sprintf(format, a...)}
}
