package main

import (
	"encoding/json"

	"golang.org/x/tools/go/ssa"
	"fmt"
	"os"
	"path/filepath"
	"regexp"
	"sort"
	"strconv"
	"strings"
	"time"
)

// configurations explored per property and tier
func configsFor(prop string, tier int) []string {
	switch prop {
	case "C08":
		return []string{"default", "noasm", "force32bit", "appengine", "force32bit,appengine", "386"}
	case "C18", "C19", "C16", "C09", "C10":
		return []string{"default", "force32bit"}
	case "C17":
		if tier == 1 {
			return []string{"default", "force32bit"}
		}
		return []string{"default"}
	case "C20":
		if tier == 1 {
			return []string{"default", "noasm", "force32bit", "appengine"}
		}
		return []string{"default", "noasm", "force32bit"}
	}
	return []string{"default"}
}

// leaf properties whose checks are re-run as part of a dependent property (the lemma DAG of DESIGN.md 2.4):
// a cut callee's contract is only as good as the leaf proof behind it, so the dependent check fails when a
// leaf it relies on fails.
func depsFor(prop string) []string {
	switch prop {
	case "C01", "C05":
		return []string{"C09", "C10", "C16", "C18", "C19"}
	case "C02":
		return []string{"C10", "C16", "C18", "C19"}
	case "C03":
		return []string{"C01", "C02", "C05", "C09", "C10", "C16", "C17", "C18", "C19"}
	case "C06":
		return []string{"C09", "C10", "C16", "C17", "C18", "C19"}
	case "C11":
		return []string{"C16", "C18", "C19"}
	case "C12":
		return []string{"C10", "C18"}
	case "C09", "C10":
		return []string{"C18"}
	case "C16":
		return []string{"C18", "C19"}
	case "C08":
		return []string{"C09", "C10", "C16", "C18", "C19"}
	case "C17":
		return []string{"C19"}
	}
	return nil
}

type Finding struct {
	Fixed bool
	Prop  string
	Key   string
	Text  string
}

func loadKnownFindings(path string) []Finding {
	b, err := os.ReadFile(path)
	if err != nil {
		return nil
	}
	var out []Finding
	for _, ln := range strings.Split(string(b), "\n") {
		ln = strings.TrimSpace(ln)
		if ln == "" || strings.HasPrefix(ln, "#") {
			continue
		}
		f := Finding{}
		switch {
		case strings.HasPrefix(ln, "fixed:"):
			f.Fixed = true
			ln = strings.TrimSpace(strings.TrimPrefix(ln, "fixed:"))
		case strings.HasPrefix(ln, "finding:"):
			ln = strings.TrimSpace(strings.TrimPrefix(ln, "finding:"))
		default:
			continue
		}
		for _, fld := range strings.Fields(ln) {
			if strings.HasPrefix(fld, "property=") {
				f.Prop = strings.TrimPrefix(fld, "property=")
			}
			if strings.HasPrefix(fld, "key=") {
				f.Key = strings.TrimPrefix(fld, "key=")
			}
		}
		f.Text = ln
		out = append(out, f)
	}
	return out
}

type Violation struct {
	Key    string // stable identification (harness + site)
	Desc   string
	Replay string // path of the replay artefact
	Ob     *Obligation
}

type Evidence struct {
	PropertyID  string                 `json:"property_id"`
	Tier        string                 `json:"tier"`
	Seed        int                    `json:"seed"`
	Level       string                 `json:"level"`
	Coverage    map[string]interface{} `json:"coverage"`
	Assumptions []string               `json:"assumptions"`
	WallS       float64                `json:"wall_s"`
	Violations  int                    `json:"violations"`
}

func checkProperty(prop string, tier int, tierName string, re *regexp.Regexp, cfgOverride string, overlay map[string][]byte, evDir, dump, caseF string, timeout time.Duration) int {
	t0 := time.Now()
	seed := 0
	if s := os.Getenv("VERIF_SEED"); s != "" {
		seed, _ = strconv.Atoi(s)
	}
	props := append([]string{prop}, depsFor(prop)...)
	if prop == "C08" && tier == 1 {
		props = append(props, "C17") // the batch evaluation on the 32-bit layouts (thorough tier only: ~4 min)
	}
	if os.Getenv("VERIF_NODEPS") != "" || re != nil {
		props = []string{prop}
	}
	propCfgs := map[string]map[string]bool{}
	var cfgs []string
	for _, p := range props {
		propCfgs[p] = map[string]bool{}
		pc := configsFor(p, tier)
		if prop == "C08" && p != "C08" {
			// every leaf suite is re-run per configuration; the limb-level leaves depend only on the layout and
			// the width of int, the group-level ones also on the selector / conditional-move variant
			if p == "C17" {
				pc = []string{"force32bit", "386"}
			} else if p == "C18" || p == "C19" {
				pc = []string{"default", "force32bit", "386"}
			} else {
				pc = configsFor("C08", tier)
			}
		}
		if cfgOverride != "" {
			pc = strings.Split(cfgOverride, ";")
		}
		for _, c := range pc {
			propCfgs[p][c] = true
			seen := false
			for _, x := range cfgs {
				if x == c {
					seen = true
				}
			}
			if !seen {
				cfgs = append(cfgs, c)
			}
		}
	}
	var allObs []*Obligation
	var results []*RunResult
	var faults []string
	funcs := map[string]int{}
	cuts := map[string]string{}
	var taints []TaintFinding
	var notes []string
	var steps int64
	feasQ := 0
	harnessCount := 0
	taintSites := map[string]int{}
	storeSites := map[string]int{}
	cases := 0
	solverTime := 0.0
	var engines []*Engine
	obEngine := map[*Obligation]*Engine{}
	obCfg := map[*Obligation]string{}
	for _, cn := range cfgs {
		bc, ok := buildConfigs[cn]
		if !ok {
			fmt.Fprintln(os.Stderr, "unknown config", cn)
			return 2
		}
		l, err := loadProgram(bc, overlay)
		if err != nil {
			faults = append(faults, fmt.Sprintf("config %s: %v", cn, err))
			continue
		}
		e := newEngine(l)
		engines = append(engines, e)
		e.feasCheck = func(hyps []*Term) bool {
			h := e.st.And(hyps...)
			if h.IsFalse() {
				return false
			}
			if h.IsTrue() {
				return true
			}
			e.feasQueries++
			q := e.st.buildQuery(hyps, nil, false, nil)
			q = strings.Replace(q, "(check-sat)\n", "", 1)
			return feasSolver.check(q) != "unsat"
		}
		registerAsm(e, l)
		base, err := e.runInits(l)
		if err != nil {
			faults = append(faults, fmt.Sprintf("config %s: init: %v", cn, err))
			continue
		}
		var hs []*ssa.Function
		for _, p := range props {
			if propCfgs[p][cn] {
				hs = append(hs, findHarnesses(l, p, re)...)
			}
		}
		var cfgObs []*Obligation
		for _, fn := range hs {
			harnessCount++
			for d, pth := range pkgDirs {
				if fn.Pkg.Pkg.Path() == pth {
					harnessPkg[fn.Name()] = d
				}
			}
			r := runHarness(l, base, e, fn, tier, caseF)
			results = append(results, r)
			cases += r.Cases
			for _, er := range r.Errors {
				faults = append(faults, fmt.Sprintf("config %s: %s", cn, er))
			}
			for _, m := range r.Misuse {
				faults = append(faults, fmt.Sprintf("config %s: %s: abstract value misuse: %s", cn, r.Harness, m))
			}
			for k, v := range r.Funcs {
				funcs[k] = v
			}
			for k, v := range r.Cuts {
				cuts[k] = v
			}
			taints = append(taints, r.Taints...)
			for k, v := range r.StoreSites {
				storeSites[k] += v
			}
			for k, v := range r.TaintSites {
				taintSites[cn+":"+k] += v
			}
			notes = append(notes, r.Notes...)
			for _, ob := range r.Obs {
				ob.Name = cn + ":" + ob.Name
				obEngine[ob] = e
				obCfg[ob] = cn
			}
			cfgObs = append(cfgObs, r.Obs...)
		}
		solveAll(e, cfgObs, tier, timeout)
		allObs = append(allObs, cfgObs...)
		steps += e.steps
		feasQ += e.feasQueries
	}
	// classify
	nTriv, nUnsat, nSat, nUnk, nReachOK := 0, 0, 0, 0, 0
	var violations []Violation
	var undischarged []string
	for _, ob := range allObs {
		solverTime += ob.Time
		switch ob.Kind {
		case ObReach:
			if ob.Verdict == "sat" {
				nReachOK++
			} else {
				undischarged = append(undischarged, fmt.Sprintf("%s: reachability witness %s (%s)", ob.Name, ob.Verdict, ob.Msg))
			}
			continue
		}
		switch ob.Verdict {
		case "unsat":
			if ob.Solver == "simplifier" {
				nTriv++
			} else {
				nUnsat++
			}
		case "sat":
			nSat++
		default:
			nUnk++
			undischarged = append(undischarged, fmt.Sprintf("%s: %s (%s)", ob.Name, ob.Verdict, ob.Msg))
		}
	}
	// dump
	if dump != "" {
		os.MkdirAll(dump, 0o755)
		for i, ob := range allObs {
			if ob.Verdict == "unsat" && ob.Solver != "simplifier" && os.Getenv("VERIF_DUMP_ALL") == "" {
				continue
			}
			if ob.Solver == "simplifier" {
				continue
			}
			e := obEngine[ob]
			var q string
			if ob.Kind == ObReach {
				q = e.st.buildQuery(ob.Hyps, nil, false, nil)
			} else {
				q = e.st.buildQuery(ob.Hyps, ob.Goal, true, nil)
			}
			os.WriteFile(filepath.Join(dump, fmt.Sprintf("ob%03d_%s.smt2", i, ob.Verdict)), []byte("; "+ob.Name+"\n; "+ob.Msg+"\n"+q), 0o644)
		}
	}
	// replay sat obligations
	known := loadKnownFindings("/verif/known_findings.txt")
	unconfirmed := 0
	replayed := 0
	// a change to the code under test can turn hundreds of obligations of one harness site satisfiable (one per
	// case vector); each native replay costs a `go test` run, so a site is replayed until it is confirmed once,
	// and at most three times, and the whole check replays at most 60 models
	replayTries := map[string]int{}
	replayDone := map[string]bool{}
	skippedReplays := 0
	for _, ob := range allObs {
		if ob.Kind == ObReach || ob.Verdict != "sat" {
			continue
		}
		rk := fmt.Sprintf("%s/%s@%s/%s", ob.Harness, ob.Kind, ob.Pos, obCfg[ob])
		if replayDone[rk] || replayTries[rk] >= 3 || replayed >= 60 {
			skippedReplays++
			if !replayDone[rk] {
				unconfirmed++
				undischarged = append(undischarged, fmt.Sprintf("%s: solver model not replayed (replay budget of this site / check used up) (%s)", ob.Name, ob.Msg))
			}
			continue
		}
		replayTries[rk]++
		v, confirmed, detail := replayObligation(prop, ob, obCfg[ob], overlay)
		if confirmed {
			replayDone[rk] = true
		}
		replayed++
		if !confirmed {
			unconfirmed++
			undischarged = append(undischarged, fmt.Sprintf("%s: solver model did not reproduce natively (%s): %s", ob.Name, ob.Msg, detail))
			continue
		}
		violations = append(violations, v)
	}
	// taint findings are violations of C20 (site-keyed)
	if prop == "C20" {
		seen := map[string]bool{}
		for _, t := range taints {
			key := "taint:" + t.Pos
			if seen[key] {
				continue
			}
			seen[key] = true
			v, ok := replayTaint(t)
			if ok {
				violations = append(violations, v)
			} else {
				unconfirmed++
				undischarged = append(undischarged, "taint finding not confirmed natively: "+t.Kind+" at "+t.Pos)
			}
		}
	}
	// dedupe violations by key
	{
		seen := map[string]bool{}
		var out []Violation
		for _, v := range violations {
			if seen[v.Key] {
				continue
			}
			seen[v.Key] = true
			out = append(out, v)
		}
		violations = out
	}
	// evidence
	var samples []interface{}
	for _, ob := range allObs {
		if len(samples) >= 6 {
			break
		}
		if ob.Solver == "simplifier" {
			continue
		}
		samples = append(samples, map[string]interface{}{"obligation": ob.Name, "kind": ob.Kind, "what": ob.Msg, "theory": ob.Theory, "term_nodes": ob.Size, "verdict": ob.Verdict, "solver": ob.Solver, "solver_s": round3(ob.Time)})
	}
	for _, v := range violations {
		samples = append(samples, map[string]interface{}{"violation": v.Key, "desc": v.Desc, "replay": v.Replay})
	}
	if len(samples) == 0 {
		for _, ob := range allObs {
			if len(samples) >= 3 {
				break
			}
			samples = append(samples, map[string]interface{}{"obligation": ob.Name, "kind": ob.Kind, "what": ob.Msg, "verdict": ob.Verdict, "solver": ob.Solver})
		}
	}
	var fl []string
	for k, v := range funcs {
		fl = append(fl, fmt.Sprintf("%s (%d SSA instrs)", k, v))
	}
	sort.Strings(fl)
	var cl []string
	for k, v := range cuts {
		cl = append(cl, k+" => "+v)
	}
	sort.Strings(cl)
	nObl := 0
	for _, ob := range allObs {
		if ob.Kind != ObReach {
			nObl++
		}
	}
	queries := 0
	for _, ob := range allObs {
		if ob.Solver != "simplifier" && ob.Solver != "" {
			queries++
		}
	}
	taintEvals := 0
	for _, v := range taintSites {
		taintEvals += v
	}
	var taintSample []string
	for k := range taintSites {
		taintSample = append(taintSample, k)
	}
	sort.Strings(taintSample)
	if len(taintSample) > 12 {
		taintSample = taintSample[:12]
	}
	nStoreDistinct := 0
	if prop == "C15" || prop == "C13" {
		// frame condition: every store instruction of the code under test that was executed is examined for
		// its target object (caller-supplied, package-level or local); one distinct case per store site
		nStoreDistinct = len(storeSites)
		var ks []string
		for k := range storeSites {
			ks = append(ks, k)
		}
		sort.Strings(ks)
		for i, k := range ks {
			if i >= 8 {
				break
			}
			samples = append(samples, map[string]interface{}{"store_site": k, "executions": storeSites[k], "what": "target object of the store examined: caller-supplied / package-level objects would be logged as a foreign store", "verdict": "local object"})
		}
	}
	nTaintDistinct := 0
	if prop == "C20" {
		nTaintDistinct = len(taintSites)
		for _, k := range taintSample {
			if len(samples) < 12 {
				samples = append(samples, map[string]interface{}{"taint_check": k, "what": "symbolic branch condition / index / variable-time primitive operand examined for secret dependence", "verdict": "public"})
			}
		}
	}
	ev := Evidence{
		PropertyID: prop, Tier: tierName, Seed: seed, Level: "model_checking",
		Coverage: map[string]interface{}{
			"evaluations":              queries + replayed + feasQ + taintEvals*boolInt(prop == "C20") + nStoreDistinct,
			"path_feasibility_queries": feasQ,
			"distinct_nontrivial":      nUnsat + nSat + nUnk + nTaintDistinct + nStoreDistinct,
			"store_sites_examined":     len(storeSites),
			"symbolic_sites_examined_for_taint": len(taintSites),
			"symbolic_site_visits":     taintEvals,
			"rule":                     "one evaluation = one SMT query issued for an obligation generated by symbolically executing the real SSA (assertion, panic-freedom, foreign-store, unwinding, reachability) or one native replay; non-trivial = not already decided by the term simplifier; obligations are distinct by (configuration, harness, case vector, site)",
			"obligations":              nObl,
			"discharged":               nUnsat + nTriv,
			"discharged_by_solver":     nUnsat,
			"discharged_by_simplifier": nTriv,
			"sat":                      nSat,
			"unknown_or_error":         nUnk,
			"reachability_witnesses":   nReachOK,
			"unconfirmed_models":       unconfirmed,
			"models_not_replayed":      skippedReplays,
			"undischarged":             undischarged,
			"engine_faults":            faults,
			"harnesses":                harnessCount,
			"case_vectors":             cases,
			"configurations":           cfgs,
			"leaf_properties_rechecked": depsFor(prop),
			"functions_encoded":        fl,
			"ssa_instructions_executed": steps,
			"cuts":                     cl,
			"solver_time_s":            round3(solverTime),
			"per_obligation_timeout_s": timeout.Seconds(),
			"bounds":                   notes,
			"samples":                  samples,
			"taint_findings":           len(taints),
		},
		Assumptions: assumptionsFor(prop),
		WallS:       round3(time.Since(t0).Seconds()),
		Violations:  len(violations),
	}
	os.MkdirAll(evDir, 0o755)
	b, _ := json.MarshalIndent(ev, "", " ")
	os.WriteFile(filepath.Join(evDir, prop+".json"), b, 0o644)

	feasSolver.stop()
	// report
	fmt.Printf("property %s tier=%s configs=%v harnesses=%d cases=%d obligations=%d discharged=%d (solver %d, simplifier %d) sat=%d unknown=%d reach-ok=%d faults=%d wall=%.1fs\n",
		prop, tierName, cfgs, harnessCount, cases, nObl, nUnsat+nTriv, nUnsat, nTriv, nSat, nUnk, nReachOK, len(faults), time.Since(t0).Seconds())
	for _, f := range faults {
		fmt.Printf("ENGINE-FAULT (inconclusive, not a violation): %s\n", firstLines(f, 40))
	}
	for _, u := range undischarged {
		fmt.Printf("UNDISCHARGED: %s\n", u)
	}
	exit := 0
	for _, v := range violations {
		kf := matchFinding(known, prop, v.Key)
		if kf != nil {
			fmt.Printf("KNOWN-FINDING: property=%s %s\n", prop, kf.Text)
			continue
		}
		fmt.Printf("VIOLATION property=%s replay=%s\n  %s\n", prop, v.Replay, v.Desc)
		exit = 1
	}
	if harnessCount == 0 {
		fmt.Printf("no harness found for %s\n", prop)
		return 2
	}
	return exit
}

func matchFinding(known []Finding, prop, key string) *Finding {
	for i := range known {
		f := &known[i]
		if f.Fixed || f.Prop != prop {
			continue
		}
		if f.Key != "" && f.Key == key {
			return f
		}
	}
	return nil
}

func boolInt(b bool) int {
	if b {
		return 1
	}
	return 0
}

func round3(x float64) float64 { return float64(int64(x*1000+0.5)) / 1000 }
