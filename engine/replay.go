package main

import (
	"encoding/json"
	"fmt"
	"os"
	"os/exec"
	"path/filepath"
	"regexp"
	"sort"
	"strings"
	"time"
)

const replayRoot = "/verif/replays"

// harnessPkgDir maps a harness name to the /repo-relative directory of its package.
var harnessPkg = map[string]string{} // filled by registerHarnessPkgs

func pkgNameOfDir(dir string) string {
	p := pkgDirs[dir]
	return p[strings.LastIndex(p, "/")+1:]
}

func parseCase(cs string) []int {
	var out []int
	for _, f := range strings.Fields(strings.Trim(cs, "[]")) {
		var v int
		fmt.Sscan(f, &v)
		out = append(out, v)
	}
	return out
}

var unsafeName = regexp.MustCompile(`[^A-Za-z0-9_.-]+`)

// customReplayers are tried first (abstract harnesses); keyed by harness-name prefix.
type customReplayer func(prop string, ob *Obligation, cfg string, dir string) (confirmed bool, desc string, detail string)

var customReplayers = map[string]customReplayer{}

// replayObligation turns a solver model into a native test against the real build.
func replayObligation(prop string, ob *Obligation, cfg string, overlay map[string][]byte) (Violation, bool, string) {
	key := fmt.Sprintf("%s/%s@%s", ob.Harness, ob.Kind, ob.Pos)
	dirName := unsafeName.ReplaceAllString(fmt.Sprintf("%s_%s_%s", ob.Harness, strings.Trim(ob.Case, "[]"), ob.Pos), "_")
	dir := filepath.Join(replayRoot, prop, dirName)
	os.MkdirAll(dir, 0o755)
	if ob.Kind == ObStore && !strings.HasPrefix(ob.Harness, "vh_C15_") && !strings.HasPrefix(ob.Harness, "vh_C13_NewKeyFromSeed") && !strings.HasPrefix(ob.Harness, "vh_C16_") && !strings.HasPrefix(ob.Harness, "vh_C19_") && !strings.HasPrefix(ob.Harness, "vh_C18_") {
		// a store to a caller-supplied or package-level object: confirmed by the sweep that runs the public API
		// concurrently on shared inputs and compares the inputs afterwards (also catches writes that are undone)
		ok, desc, detail := raceSweepReplayer(prop, ob, cfg, dir)
		if ok {
			return Violation{Key: key, Desc: desc, Replay: dir, Ob: ob}, true, detail
		}
	}
	best := ""
	for pfx := range customReplayers {
		if strings.HasPrefix(ob.Harness, pfx) && len(pfx) > len(best) {
			best = pfx
		}
	}
	if best != "" {
		ok, desc, detail := customReplayers[best](prop, ob, cfg, dir)
		v := Violation{Key: key, Desc: desc, Replay: dir, Ob: ob}
		return v, ok, detail
	}
	ok, out := nativeReplay(ob, cfg, dir, overlay)
	desc := fmt.Sprintf("%s: %s at %s; model reproduced natively: %s", ob.Harness, ob.Msg, ob.Pos, firstLines(out, 3))
	return Violation{Key: key, Desc: desc, Replay: dir, Ob: ob}, ok, firstLines(out, 4)
}

// nativeReplay runs the harness function natively on the model's inputs.
func nativeReplay(ob *Obligation, cfg string, dir string, overlay map[string][]byte) (bool, string) {
	rel, ok := harnessPkg[ob.Harness]
	if !ok {
		return false, "harness package unknown"
	}
	pkgName := pkgNameOfDir(rel)
	model := map[string]interface{}{"values": ob.Model, "cases": parseCase(ob.Case), "tier": 0}
	mb, _ := json.MarshalIndent(model, "", " ")
	modelPath := filepath.Join(dir, "model.json")
	os.WriteFile(modelPath, mb, 0o644)
	nat, err := os.ReadFile("/verif/harness/_common/native.go.tmpl")
	if err != nil {
		return false, err.Error()
	}
	natSrc := strings.Replace(string(nat), "package PKG", "package "+pkgName, 1)
	natPath := filepath.Join(dir, "zz_verif_native.go")
	os.WriteFile(natPath, []byte(natSrc), 0o644)
	test := fmt.Sprintf(`package %s

import (
	"strings"
	"testing"
)

func TestVerifReplay(t *testing.T) {
	vNativeLoad(%q)
	kind := %q
	defer func() {
		if r := recover(); r != nil {
			if a, ok := r.(vnAbort); ok {
				t.Logf("REPLAY-NOT-APPLICABLE: %%s", a.why)
				return
			}
			if kind == "panic-free" {
				t.Fatalf("REPLAY-CONFIRMED: panic: %%v", r)
			}
			t.Fatalf("REPLAY-CONFIRMED (unexpected panic): %%v", r)
		}
	}()
	%s()
	if f := vNativeFailures(); len(f) > 0 {
		t.Fatalf("REPLAY-CONFIRMED: assertion(s) failed on the real code: %%s", strings.Join(f, "; "))
	}
	if kind == "no-foreign-store" {
		if m := vNativeModified(); len(m) > 0 {
			t.Fatalf("REPLAY-CONFIRMED: caller-supplied input modified: %%s", strings.Join(m, ", "))
		}
	}
}
`, pkgName, modelPath, string(ob.Kind), ob.Harness)
	testPath := filepath.Join(dir, "zz_verif_replay_test.go")
	os.WriteFile(testPath, []byte(test), 0o644)
	repl := map[string]string{}
	repl[filepath.Join(repoDir, rel, "zz_verif_native.go")] = natPath
	repl[filepath.Join(repoDir, rel, "zz_verif_replay_test.go")] = testPath
	for p, src := range overlay {
		if filepath.Dir(p) != filepath.Join(repoDir, rel) || strings.HasSuffix(p, "zz_verif_intrinsics.go") {
			continue
		}
		hp := filepath.Join(dir, filepath.Base(p))
		os.WriteFile(hp, src, 0o644)
		repl[p] = hp
	}
	ovb, _ := json.MarshalIndent(map[string]interface{}{"Replace": repl}, "", " ")
	ovPath := filepath.Join(dir, "overlay.json")
	os.WriteFile(ovPath, ovb, 0o644)
	bc := buildConfigs[cfg]
	args := []string{"test", "-vet=off", "-count=1", "-run", "^TestVerifReplay$", "-v", "-overlay", ovPath}
	if bc.Tags != "" {
		args = append(args, "-tags", bc.Tags)
	}
	args = append(args, "./"+rel)
	sh := fmt.Sprintf("#!/bin/sh\n# replays the solver model in model.json against the real code in /repo\ncd %s && GOFLAGS=-mod=mod GOPROXY=off GOSUMDB=off GOTOOLCHAIN=local %s go %s\n", repoDir, goarchEnv(bc), strings.Join(args, " "))
	os.WriteFile(filepath.Join(dir, "run.sh"), []byte(sh), 0o755)
	out, _ := runGo(bc, args, 10*time.Minute)
	os.WriteFile(filepath.Join(dir, "output.txt"), []byte(out), 0o644)
	if i := strings.Index(out, "REPLAY-CONFIRMED"); i >= 0 {
		return true, out[i:]
	}
	return false, out
}

func goarchEnv(bc BuildConfig) string {
	if bc.GOARCH != "" {
		return "GOARCH=" + bc.GOARCH
	}
	return ""
}

func runGo(bc BuildConfig, args []string, timeout time.Duration) (string, error) {
	cmd := exec.Command("go", args...)
	cmd.Dir = repoDir
	cmd.Env = append(os.Environ(), "GOFLAGS=-mod=mod", "GOPROXY=off", "GOSUMDB=off", "GOTOOLCHAIN=local")
	if bc.GOARCH != "" {
		cmd.Env = append(cmd.Env, "GOARCH="+bc.GOARCH)
	}
	done := make(chan struct{})
	var out []byte
	var err error
	go func() { out, err = cmd.CombinedOutput(); close(done) }()
	select {
	case <-done:
	case <-time.After(timeout):
		if cmd.Process != nil {
			cmd.Process.Kill()
		}
		<-done
		return string(out) + "\n(timeout)", fmt.Errorf("timeout")
	}
	return string(out), err
}

func replayTaint(t TaintFinding) (Violation, bool) {
	// A secret-dependent branch / index / variable-time primitive is identified by its site; the
	// site is in the real source, so the finding is the call site itself (see DESIGN C20).
	key := "taint:" + t.Kind + "@" + t.Pos
	dir := filepath.Join(replayRoot, "C20", unsafeName.ReplaceAllString(key, "_"))
	os.MkdirAll(dir, 0o755)
	desc := fmt.Sprintf("secret-dependent %s at %s in %s", t.Kind, t.Pos, t.Fn)
	os.WriteFile(filepath.Join(dir, "finding.txt"), []byte(desc+"\n"), 0o644)
	return Violation{Key: key, Desc: desc, Replay: dir}, true
}

func assumptionsFor(prop string) []string {
	base := []string{
		"go/ssa lowering and this executor's semantics of the SSA subset used (validated by native replay of every reported counterexample)",
		"z3 5.1.0 / cvc5 1.0 answers (unknown, timeout or error is reported as undischarged, never as success)",
		"Go compiler, assembler and standard library (crypto/sha512, crypto/subtle, encoding/binary, math/bits) behave as documented",
	}
	if a, ok := propAssumptions[prop]; ok {
		base = append(base, a...)
	}
	return base
}

var propAssumptions = map[string][]string{}

// ---------------------------------------------------------------------------
// sweep replays: confirmation of abstract (UF-level) counterexamples by a fixed
// constructive-family differential test against the math/big reference model.

type sweepResult struct {
	ok  bool
	out string
}

var sweepCache = map[string]sweepResult{}

func sweepReplay(tmpl, testName, rel, cfg, dir string) (bool, string) {
	return sweepReplayFlags(tmpl, testName, rel, cfg, dir, nil)
}

func sweepReplayFlags(tmpl, testName, rel, cfg, dir string, extra []string) (bool, string) {
	return sweepReplayExtra(tmpl, testName, rel, cfg, dir, extra, nil)
}

func sweepReplayFile(tmplPath, cacheKey, testName, rel, cfg, dir string) (bool, string) {
	return sweepReplayImpl(tmplPath, cacheKey, testName, rel, cfg, dir, nil, nil)
}

func sweepReplayExtra(tmpl, testName, rel, cfg, dir string, extra []string, extraFiles map[string]string) (bool, string) {
	return sweepReplayImpl(filepath.Join("/verif/oracle", tmpl), tmpl+"|"+cfg, testName, rel, cfg, dir, extra, extraFiles)
}

func sweepReplayImpl(tmplPath, ck, testName, rel, cfg, dir string, extra []string, extraFiles map[string]string) (bool, string) {
	if r, ok := sweepCache[ck]; ok {
		os.WriteFile(filepath.Join(dir, "output.txt"), []byte(r.out), 0o644)
		return r.ok, r.out
	}
	pkgName := pkgNameOfDir(rel)
	or, err := os.ReadFile("/verif/oracle/oracle.go.tmpl")
	if err != nil {
		return false, err.Error()
	}
	orPath := filepath.Join(dir, "zz_verif_oracle_test.go")
	os.WriteFile(orPath, []byte(strings.Replace(string(or), "package PKG", "package "+pkgName, 1)), 0o644)
	tb, err := os.ReadFile(tmplPath)
	if err != nil {
		return false, err.Error()
	}
	tPath := filepath.Join(dir, "zz_verif_sweep_test.go")
	os.WriteFile(tPath, tb, 0o644)
	repl := map[string]string{
		filepath.Join(repoDir, rel, "zz_verif_oracle_test.go"): orPath,
		filepath.Join(repoDir, rel, "zz_verif_sweep_test.go"):  tPath,
	}
	for k, v := range extraFiles {
		repl[k] = v
	}
	ovb, _ := json.MarshalIndent(map[string]interface{}{"Replace": repl}, "", " ")
	ovPath := filepath.Join(dir, "overlay.json")
	os.WriteFile(ovPath, ovb, 0o644)
	bc := buildConfigs[cfg]
	args := []string{"test", "-vet=off", "-count=1", "-run", "^" + testName + "$", "-v", "-overlay", ovPath}
	args = append(args, extra...)
	if bc.Tags != "" {
		args = append(args, "-tags", bc.Tags)
	}
	if rel == "" {
		args = append(args, ".")
	} else {
		args = append(args, "./"+rel)
	}
	sh := fmt.Sprintf("#!/bin/sh\n# differential sweep of the real API against the math/big reference predicate\ncd %s && GOFLAGS=-mod=mod GOPROXY=off GOSUMDB=off GOTOOLCHAIN=local %s go %s\n", repoDir, goarchEnv(bc), strings.Join(args, " "))
	os.WriteFile(filepath.Join(dir, "run.sh"), []byte(sh), 0o755)
	out, _ := runGo(bc, args, 15*time.Minute)
	os.WriteFile(filepath.Join(dir, "output.txt"), []byte(out), 0o644)
	res := sweepResult{ok: strings.Contains(out, "REPLAY-CONFIRMED"), out: out}
	if i := strings.Index(out, "REPLAY-CONFIRMED"); i >= 0 {
		res.out = out[i:]
	}
	sweepCache[ck] = res
	return res.ok, res.out
}

func verifySweepReplayer(prop string, ob *Obligation, cfg string, dir string) (bool, string, string) {
	ok, out := sweepReplay("verify_sweep_test.go.tmpl", "TestVerifSweep", "", cfg, dir)
	desc := fmt.Sprintf("%s: solver found an interpretation violating \"%s\" (%s); confirmed on the real API: %s", ob.Harness, ob.Msg, ob.Pos, firstLines(out, 5))
	return ok, desc, firstLines(out, 3)
}

func signSweepReplayer(prop string, ob *Obligation, cfg string, dir string) (bool, string, string) {
	ok, out := sweepReplay("sign_sweep_test.go.tmpl", "TestVerifSignSweep", "", cfg, dir)
	desc := fmt.Sprintf("%s: solver found an interpretation violating \"%s\" (%s); confirmed on the real API: %s", ob.Harness, ob.Msg, ob.Pos, firstLines(out, 5))
	return ok, desc, firstLines(out, 3)
}

func batchSweepReplayer(prop string, ob *Obligation, cfg string, dir string) (bool, string, string) {
	ok, out := sweepReplay("batch_sweep_test.go.tmpl", "TestVerifBatchSweep", "", cfg, dir)
	desc := fmt.Sprintf("%s: solver found an interpretation violating \"%s\" (%s); confirmed on the real API: %s", ob.Harness, ob.Msg, ob.Pos, firstLines(out, 5))
	return ok, desc, firstLines(out, 3)
}

func x25519SweepReplayer(prop string, ob *Obligation, cfg string, dir string) (bool, string, string) {
	ok, out := sweepReplay("x25519_sweep_test.go.tmpl", "TestVerifX25519Sweep", "extra/x25519", cfg, dir)
	desc := fmt.Sprintf("%s: solver found an interpretation violating \"%s\" (%s); confirmed on the real API: %s", ob.Harness, ob.Msg, ob.Pos, firstLines(out, 5))
	return ok, desc, firstLines(out, 3)
}

func raceSweepReplayer(prop string, ob *Obligation, cfg string, dir string) (bool, string, string) {
	ok, out := sweepReplayFlags("race_sweep_test.go.tmpl", "TestVerifRaceSweep", "", cfg, dir, []string{"-race"})
	if !ok && strings.Contains(out, "DATA RACE") {
		ok = true
		if i := strings.Index(out, "WARNING: DATA RACE"); i >= 0 {
			out = "REPLAY-CONFIRMED: data race reported by the race detector: " + out[i:]
		}
	}
	desc := fmt.Sprintf("%s: %s (%s); confirmed by concurrent calls on shared inputs under the race detector: %s", ob.Harness, ob.Msg, ob.Pos, firstLines(out, 6))
	return ok, desc, firstLines(out, 3)
}

func msmSweepReplayer(prop string, ob *Obligation, cfg string, dir string) (bool, string, string) {
	ok, out := sweepReplay("msm_sweep_test.go.tmpl", "TestVerifMsmSweep", "", cfg, dir)
	desc := fmt.Sprintf("%s: solver found a counterexample to \"%s\" (%s); confirmed on the real routine: %s", ob.Harness, ob.Msg, ob.Pos, firstLines(out, 5))
	return ok, desc, firstLines(out, 3)
}

// modmSweepReplayer: staged / cut C19 harnesses.  The model's limb values are injected into the sweep, which also
// runs a structured set of inputs.
func modmSweepReplayer(prop string, ob *Obligation, cfg string, dir string) (bool, string, string) {
	tb, err := os.ReadFile("/verif/oracle/modm_sweep_test.go.tmpl")
	if err != nil {
		return false, err.Error(), ""
	}
	var kv []string
	for k, v := range ob.Model {
		if strings.HasPrefix(v, "#x") {
			v = "0x" + v[2:]
		} else if strings.HasPrefix(v, "#b") {
			v = "0b" + v[2:]
		}
		kv = append(kv, fmt.Sprintf("%q: %q", k, v))
	}
	sort.Strings(kv)
	src := strings.Replace(string(tb), "/*MODEL*/", strings.Join(kv, ", "), 1)
	tmpl := filepath.Join(dir, "modm_sweep_with_model_test.go.tmpl")
	os.WriteFile(tmpl, []byte(src), 0o644)
	delete(sweepCache, "modm|"+cfg+"|"+ob.Name)
	ok, out := sweepReplayFile(tmpl, "modm|"+cfg+"|"+ob.Name, "TestVerifModmSweep", "internal/modm", cfg, dir)
	desc := fmt.Sprintf("%s: counterexample to \"%s\" (%s); confirmed on the real scalar arithmetic: %s", ob.Harness, ob.Msg, ob.Pos, firstLines(out, 5))
	return ok, desc, firstLines(out, 3)
}

func decodeSweepReplayer(prop string, ob *Obligation, cfg string, dir string) (bool, string, string) {
	ok, out := sweepReplay("decode_sweep_test.go.tmpl", "TestVerifDecodeSweep", "internal/ge25519", cfg, dir)
	desc := fmt.Sprintf("%s: counterexample to \"%s\" (%s); confirmed on the real decoder / encoder: %s", ob.Harness, ob.Msg, ob.Pos, firstLines(out, 5))
	return ok, desc, firstLines(out, 3)
}

func scalarmultSweepReplayer(prop string, ob *Obligation, cfg string, dir string) (bool, string, string) {
	ok, out := sweepReplay("scalarmult_sweep_test.go.tmpl", "TestVerifScalarmultSweep", "internal/ge25519", cfg, dir)
	desc := fmt.Sprintf("%s: counterexample to \"%s\" (%s); confirmed on the real scalar multiplications: %s", ob.Harness, ob.Msg, ob.Pos, firstLines(out, 5))
	return ok, desc, firstLines(out, 3)
}

// fallbackSweepReplayer runs all-valid batches under a coverage profile and reports whether the fallback block
// of VerifyBatch was executed.
func fallbackSweepReplayer(prop string, ob *Obligation, cfg string, dir string) (bool, string, string) {
	cover := filepath.Join(dir, "cover.out")
	os.Remove(cover)
	// the batch sweep file provides the deterministic entropy stream type
	bs, _ := os.ReadFile("/verif/oracle/batch_sweep_test.go.tmpl")
	extraPath := filepath.Join(dir, "zz_verif_batchtypes_test.go")
	src := string(bs)
	// keep the stream type and the entry pool, drop the sweep itself (and the imports only it uses)
	if i := strings.Index(src, "func TestVerifBatchSweep("); i > 0 {
		src = src[:i]
	}
	src = strings.Replace(src, "\t\"crypto\"\n", "", 1)
	src = strings.Replace(src, "\t\"testing\"\n", "", 1)
	os.WriteFile(extraPath, []byte(src), 0o644)
	ok, out := sweepReplayExtra("fallback_sweep_test.go.tmpl", "TestVerifFallbackSweep", "", cfg, dir, []string{"-coverprofile=" + cover}, map[string]string{filepath.Join(repoDir, "zz_verif_batchtypes_test.go"): extraPath})
	detail := firstLines(out, 3)
	if !ok {
		// inspect the coverage profile for the fallback block
		srcb, err := os.ReadFile(filepath.Join(repoDir, "batch_verify.go"))
		prof, err2 := os.ReadFile(cover)
		if err == nil && err2 == nil {
			lines := strings.Split(string(srcb), "\n")
			start, end := -1, -1
			for i, l := range lines {
				if start < 0 && strings.Contains(l, "if !batchOk {") && i > 0 && strings.Contains(strings.Join(lines[maxInt(0, i-3):i], " "), "fallback") {
					start = i + 1
				}
				if start >= 0 && end < 0 && strings.Contains(l, "offset += batchSize") {
					end = i + 1
				}
			}
			if start > 0 && end > start {
				for _, pl := range strings.Split(string(prof), "\n") {
					if !strings.Contains(pl, "batch_verify.go:") {
						continue
					}
					var sl, sc, el, ec, nst, cnt int
					rest := pl[strings.Index(pl, "batch_verify.go:")+len("batch_verify.go:"):]
					if _, err := fmt.Sscanf(rest, "%d.%d,%d.%d %d %d", &sl, &sc, &el, &ec, &nst, &cnt); err == nil {
						if sl > start && el < end && cnt > 0 {
							ok = true
							detail = fmt.Sprintf("REPLAY-CONFIRMED: the per-signature fallback block of VerifyBatch (batch_verify.go:%d-%d) was executed %d time(s) for all-valid batches", sl, el, cnt)
							break
						}
					}
				}
			}
		}
	}
	desc := fmt.Sprintf("%s: %s (%s); %s", ob.Harness, ob.Msg, ob.Pos, detail)
	return ok, desc, detail
}

func maxInt(a, b int) int {
	if a > b {
		return a
	}
	return b
}

func init() {
	for _, p := range []string{"vh_C17_valid_batch"} {
		customReplayers[p] = fallbackSweepReplayer
	}
	for _, p := range []string{"vh_C17_multiScalarmult", "vh_C17_bosCoster"} {
		customReplayers[p] = msmSweepReplayer
	}
	for _, p := range []string{"vh_C10_Unpack", "vh_C10_Pack", "vh_C10_decode"} {
		customReplayers[p] = decodeSweepReplayer
	}
	for _, p := range []string{"vh_C19_barrett", "vh_C19_Expand64", "vh_C19_Mul"} {
		customReplayers[p] = modmSweepReplayer
	}
	for _, p := range []string{"vh_C16_NielsBase", "vh_C16_nielsSliding", "vh_C16_basepoint", "vh_C16_ScalarmultBase", "vh_C16_DoubleScalarmult"} {
		customReplayers[p] = scalarmultSweepReplayer
	}
	for _, p := range []string{"vh_C11_", "vh_C12_", "vh_C13_X25519"} {
		customReplayers[p] = x25519SweepReplayer
	}
	for _, p := range []string{"vh_C15_"} {
		customReplayers[p] = raceSweepReplayer
	}
	for _, p := range []string{"vh_C06_", "vh_C03_batch", "vh_C04_batch", "vh_C05_batch", "vh_C07_batch", "vh_C13_batch", "vh_C03_batch", "vh_C09_batch"} {
		customReplayers[p] = batchSweepReplayer
	}
	for _, p := range []string{"vh_C01_", "vh_C05_Verify", "vh_C04_verify", "vh_C07_", "vh_C13_Verify", "vh_C13_nil"} {
		customReplayers[p] = verifySweepReplayer
	}
	for _, p := range []string{"vh_C02_", "vh_C14_GenerateKey", "vh_C14_accessors", "vh_C07_Sign", "vh_C13_NewKeyFromSeed", "vh_C13_Sign", "vh_C13_PrivateKey"} {
		customReplayers[p] = signSweepReplayer
	}
}
