package main

import (
	"bytes"
	"context"
	"fmt"
	"os"
	"os/exec"
	"path/filepath"
	"regexp"
	"strings"
	"sync"
	"time"
)

type SolverCfg struct {
	Name string
	Cmd  []string // file name appended
	Pre  string   // SMT prelude (set-option ...)
}

var (
	z3new = SolverCfg{Name: "z3-5.1.0", Cmd: []string{"z3-new"}}
	z3old = SolverCfg{Name: "z3-4.8.12", Cmd: []string{"z3"}}
	cvc5c = SolverCfg{Name: "cvc5-1.0", Cmd: []string{"cvc5", "--strings-exp"}}
)

func z3seed(seed int) SolverCfg {
	return SolverCfg{Name: fmt.Sprintf("z3-5.1.0/seed%d", seed), Cmd: []string{"z3-new", fmt.Sprintf("smt.random_seed=%d", seed), fmt.Sprintf("sat.random_seed=%d", seed)}}
}

var z3som = SolverCfg{Name: "z3-5.1.0/som", Cmd: []string{"z3-new", "rewriter.som=true", "rewriter.som_blowup=100"}}

var cvc5int = SolverCfg{Name: "cvc5-1.0/bv-as-int", Cmd: []string{"cvc5", "--solve-bv-as-int=sum"}}

type SolveResult struct {
	Verdict string // sat, unsat, unknown, error
	Solver  string
	Time    float64
	Model   map[string]string
	Raw     string
}

var procSem = make(chan struct{}, 16)

var workDir string

func ensureWorkDir() string {
	if workDir == "" {
		d, err := os.MkdirTemp("", "verif-smt-")
		if err != nil {
			panic(err)
		}
		workDir = d
	}
	return workDir
}

var fileN int
var fileMu sync.Mutex

// buildQuery renders "hyps ∧ ¬goal" (or just hyps for reachability) as SMT-LIB.
func (st *Store) buildQuery(hyps []*Term, goal *Term, negGoal bool, modelSyms []*Term) string {
	var sb strings.Builder
	roots := append([]*Term{}, hyps...)
	if goal != nil {
		roots = append(roots, goal)
	}
	var body strings.Builder
	names := st.Emit(&body, roots)
	sb.WriteString(body.String())
	for i := range hyps {
		fmt.Fprintf(&sb, "(assert %s)\n", names[i])
	}
	if goal != nil {
		if negGoal {
			fmt.Fprintf(&sb, "(assert (not %s))\n", names[len(hyps)])
		} else {
			fmt.Fprintf(&sb, "(assert %s)\n", names[len(hyps)])
		}
	}
	sb.WriteString("(check-sat)\n")
	if len(modelSyms) > 0 {
		sb.WriteString("(get-value (")
		for _, s := range modelSyms {
			sb.WriteString(smtName(s.Name))
			sb.WriteString(" ")
		}
		sb.WriteString("))\n")
	}
	return sb.String()
}

var valRe = regexp.MustCompile(`\(\s*(\|[^|]*\||[^\s()]+)\s+(#x[0-9a-fA-F]+|#b[01]+|true|false|\(- \d+\)|\d+)\s*\)`)

func runSolver(ctx context.Context, cfg SolverCfg, query string, timeout time.Duration) SolveResult {
	procSem <- struct{}{}
	defer func() { <-procSem }()
	if ctx.Err() != nil {
		return SolveResult{Verdict: "unknown", Solver: cfg.Name, Raw: "cancelled"}
	}
	fileMu.Lock()
	fileN++
	fn := filepath.Join(ensureWorkDir(), fmt.Sprintf("q%d.smt2", fileN))
	fileMu.Unlock()
	pre := "(set-option :produce-models true)\n"
	if strings.HasPrefix(cfg.Cmd[0], "cvc5") {
		pre += "(set-logic ALL)\n"
	}
	if err := os.WriteFile(fn, []byte(pre+cfg.Pre+query), 0o644); err != nil {
		return SolveResult{Verdict: "error", Solver: cfg.Name, Raw: err.Error()}
	}
	defer os.Remove(fn)
	cctx, cancel := context.WithTimeout(ctx, timeout)
	defer cancel()
	args := append([]string{}, cfg.Cmd[1:]...)
	args = append(args, fn)
	cmd := exec.CommandContext(cctx, cfg.Cmd[0], args...)
	var out bytes.Buffer
	cmd.Stdout = &out
	cmd.Stderr = &out
	t0 := time.Now()
	err := cmd.Run()
	el := time.Since(t0).Seconds()
	raw := out.String()
	res := SolveResult{Solver: cfg.Name, Time: el, Raw: raw}
	first := strings.TrimSpace(strings.SplitN(raw, "\n", 2)[0])
	hasErr := false
	for _, ln := range strings.Split(raw, "\n") {
		if strings.Contains(ln, "(error") && !strings.Contains(ln, "model is not available") && !strings.Contains(ln, "Cannot get value") && !strings.Contains(ln, "cannot get value") {
			hasErr = true
		}
	}
	switch {
	case hasErr:
		res.Verdict = "error"
	case first == "sat":
		res.Verdict = "sat"
		res.Model = map[string]string{}
		for _, m := range valRe.FindAllStringSubmatch(raw, -1) {
			res.Model[strings.Trim(m[1], "|")] = m[2]
		}
	case first == "unsat":
		res.Verdict = "unsat"
	default:
		res.Verdict = "unknown"
		if err != nil && cctx.Err() == nil && first != "unknown" && first != "timeout" {
			res.Verdict = "error"
		}
	}
	return res
}

type attempt struct {
	cfg      SolverCfg
	query    string
	label    string // encoding used
	satExact bool   // a sat answer of this attempt is a genuine model (not an over-approximation)
	side     string // optional second query (no-wrap side conditions) that must also be unsat
}

var sideCache = map[string]SolveResult{}
var sideMu sync.Mutex

// solveSide decides a side-condition query once (cached by text) with a small portfolio.
func solveSide(ctx context.Context, q string, timeout time.Duration) SolveResult {
	sideMu.Lock()
	if r, ok := sideCache[q]; ok {
		sideMu.Unlock()
		return r
	}
	sideMu.Unlock()
	cfgs := []SolverCfg{z3new, cvc5c, z3seed(7)}
	ch := make(chan SolveResult, len(cfgs))
	cctx, cancel := context.WithCancel(ctx)
	defer cancel()
	for _, c := range cfgs {
		go func(c SolverCfg) { ch <- runSolver(cctx, c, q, timeout) }(c)
	}
	res := SolveResult{Verdict: "unknown"}
	for range cfgs {
		r := <-ch
		if r.Verdict == "unsat" || r.Verdict == "sat" {
			res = r
			break
		}
		if res.Verdict == "unknown" {
			res = r
		}
	}
	sideMu.Lock()
	sideCache[q] = res
	sideMu.Unlock()
	return res
}

// portfolio runs the attempts concurrently; the first definite answer wins
// (unsat from any attempt; sat only from an exact encoding).
func portfolioAttempts(as []attempt, timeout time.Duration) SolveResult {
	ctx, cancel := context.WithCancel(context.Background())
	defer cancel()
	type res struct {
		r SolveResult
		a attempt
	}
	ch := make(chan res, len(as))
	for _, a := range as {
		go func(a attempt) { ch <- res{runSolver(ctx, a.cfg, a.query, timeout), a} }(a)
	}
	var last SolveResult
	last.Verdict = "unknown"
	var errs []string
	tot := 0.0
	for range as {
		x := <-ch
		r := x.r
		tot += r.Time
		r.Solver = r.Solver + " [" + x.a.label + "]"
		if r.Verdict == "unsat" && x.a.side != "" {
			sr := solveSide(ctx, x.a.side, timeout)
			tot += sr.Time
			if sr.Verdict != "unsat" {
				r.Verdict = "unknown"
				r.Raw = "main query unsat but no-wrap side conditions " + sr.Verdict + " (" + sr.Solver + ")"
			} else {
				r.Solver += " + side conditions " + sr.Solver
			}
		}
		if r.Verdict == "unsat" || (r.Verdict == "sat" && x.a.satExact) {
			r.Time = tot
			return r
		}
		if r.Verdict == "sat" {
			r.Verdict = "unknown"
			r.Raw = "candidate model from an over-approximating encoding (" + x.a.label + ")"
		}
		if r.Verdict == "error" {
			errs = append(errs, r.Solver+": "+firstLines(r.Raw, 3))
		}
		if last.Verdict == "unknown" || r.Verdict != "unknown" {
			last = r
		}
	}
	last.Time = tot
	if len(errs) > 0 {
		if last.Verdict == "error" {
			last.Verdict = "unknown"
		}
		last.Raw += " errors: " + strings.Join(errs, "; ")
	}
	return last
}

func portfolio(cfgs []SolverCfg, query string, timeout time.Duration) SolveResult {
	var as []attempt
	for _, c := range cfgs {
		as = append(as, attempt{cfg: c, query: query, label: "direct", satExact: true})
	}
	return portfolioAttempts(as, timeout)
}

func firstLines(s string, n int) string {
	l := strings.Split(s, "\n")
	if len(l) > n {
		l = l[:n]
	}
	return strings.Join(l, " | ")
}

// theoryOf classifies the terms reachable from ts.
func theoryOf(ts []*Term) string {
	hasInt, hasSeq, hasMul := false, false, false
	seen := map[int]bool{}
	var stack []*Term
	stack = append(stack, ts...)
	for len(stack) > 0 {
		t := stack[len(stack)-1]
		stack = stack[:len(stack)-1]
		if seen[t.ID] {
			continue
		}
		seen[t.ID] = true
		if t.S.K == SInt {
			hasInt = true
		}
		if t.S.K == SSeq {
			hasSeq = true
		}
		if t.Op == OIMul {
			nc := 0
			for _, a := range t.Args {
				if !a.IsConst() {
					nc++
				}
			}
			if nc > 1 {
				hasMul = true
			}
		}
		stack = append(stack, t.Args...)
	}
	switch {
	case hasSeq:
		return "seq"
	case hasMul:
		return "nia"
	case hasInt:
		return "lia"
	}
	return "bv"
}

func solversFor(theory string, tier int) []SolverCfg {
	switch theory {
	case "seq":
		return []SolverCfg{z3new}
	case "nia":
		return []SolverCfg{z3new, z3som, z3seed(7), z3seed(42)}
	case "lia":
		return []SolverCfg{z3new, cvc5c, z3seed(7)}
	}
	return []SolverCfg{z3new, cvc5c}
}
