package main

import (
	"fmt"
	"go/types"
	"math/big"
	"strings"

	"golang.org/x/tools/go/ssa"
)

func (e *Engine) execCall(fr *Frame, s *State, i *ssa.Call) Value {
	c := i.Common()
	pos := e.pos(i)
	if c.IsInvoke() {
		recv := e.get(fr, c.Value).(*Iface)
		var args []Value
		for _, a := range c.Args {
			args = append(args, e.get(fr, a))
		}
		return e.invoke(fr, s, recv, c.Method, args, pos)
	}
	var args []Value
	for _, a := range c.Args {
		args = append(args, e.get(fr, a))
	}
	switch f := c.Value.(type) {
	case *ssa.Builtin:
		return e.builtin(fr, s, f, args, c.Args, pos)
	case *ssa.Function:
		return e.callStatic(fr, s, f, args, pos)
	}
	fv := e.get(fr, c.Value)
	switch f := fv.(type) {
	case *Closure:
		return e.callFunction(s, f.Fn, args, f.Bind)
	case *FuncV:
		if f.Fn != nil {
			return e.callStatic(fr, s, f.Fn, args, pos)
		}
	}
	panic(unsupported("dynamic call of %T at %s", fv, pos))
}

func (e *Engine) callStatic(fr *Frame, s *State, f *ssa.Function, args []Value, pos string) Value {
	if r, ok := e.replace[f]; ok {
		e.H.cutsUsed[f.String()] = r.Name()
		return e.callFunction(s, r, args, nil)
	}
	name := f.String()
	if r, ok := e.replaceName[name]; ok {
		e.H.cutsUsed[name] = r.Name()
		return e.callFunction(s, r, args, nil)
	}
	if h, ok := stdIntrinsics[name]; ok {
		return h(e, fr, s, args, pos)
	}
	if f.Blocks == nil {
		// harness intrinsic?
		if f.Pkg != nil && e.isRepoPkg(f.Pkg.Pkg.Path()) {
			if h, ok := harnessIntrinsics[f.Name()]; ok {
				return h(e, fr, s, f, args, pos)
			}
			if f.Signature.Recv() != nil {
				if h, ok := harnessIntrinsics[recvName(f)+"."+f.Name()]; ok {
					return h(e, fr, s, f, args, pos)
				}
			}
			if h, ok := e.asmFuncs[name]; ok {
				return h(e, fr, s, args, pos)
			}
		}
		panic(unsupported("call of external function %s at %s", name, pos))
	}
	if f.Pkg == nil || !e.isRepoPkg(f.Pkg.Pkg.Path()) {
		if f.Name() == "init" && f.Pkg != nil {
			return nil // initialisation of foreign packages is not modelled
		}
		if inlineForeign[name] || inlineForeignPkg(name) {
			return e.callFunction(s, f, args, nil)
		}
		if f.Pkg == nil && f.Synthetic != "" {
			// wrapper/thunk/bound method: inline
			return e.callFunction(s, f, args, nil)
		}
		panic(unsupported("call into non-repo function %s at %s", name, pos))
	}
	return e.callFunction(s, f, args, nil)
}

// error values are opaque but have an identity: errors.New / fmt.Errorf results are pairwise distinct constants,
// an error returned by a modelled reader is an arbitrary one (it may be io.EOF or any other)
func (e *Engine) newErrID() *Term {
	e.errN++
	return e.st.BVu(uint64(e.errN), 32)
}

func (e *Engine) symErrID() *Term {
	return e.st.Sym(fmt.Sprintf("err_identity_%d", e.H.nextSym()), BV(32))
}

func (e *Engine) runeCount(fr *Frame, s *State, v Value, pos string) Value {
	var n *Term
	switch x := v.(type) {
	case *StrV:
		switch {
		case x.Blob != nil:
			n = x.Blob.Len
		case x.Opaque:
			panic(unsupported("rune count of an opaque string at %s", pos))
		default:
			n = e.st.BVu(uint64(len(x.Bytes)), e.intw)
		}
	case *SliceV:
		n = x.Len
	default:
		panic(unsupported("rune count of %T at %s", v, pos))
	}
	if n.IsConst() && n.Val.Sign() == 0 {
		return n
	}
	r := e.st.Sym(fmt.Sprintf("runecount_%d", e.H.nextSym()), BV(e.intw))
	// len/4 <= runes <= len (at most four bytes per rune, invalid bytes count one rune each)
	e.H.assumes = append(e.H.assumes, e.st.BVUle(r, n), e.st.BVUle(n, e.st.BVMul(r, e.st.BVu(4, e.intw))))
	e.H.notes = append(e.H.notes, "rune count at "+pos+" modelled as any value between a quarter of the byte length and the byte length")
	return r
}

func recvName(f *ssa.Function) string {
	t := f.Signature.Recv().Type()
	if p, ok := t.(*types.Pointer); ok {
		t = p.Elem()
	}
	if n, ok := t.(*types.Named); ok {
		return n.Obj().Name()
	}
	return t.String()
}

func (e *Engine) invoke(fr *Frame, s *State, recv *Iface, m *types.Func, args []Value, pos string) Value {
	if recv.Dyn == nil {
		e.H.addPanic(e, s, s.pc, "nil interface method call", pos, fr)
		s.dead = true
		return nil
	}
	if recv.Nil != nil && !recv.Nil.IsFalse() {
		e.H.addPanic(e, s, e.st.And(s.pc, recv.Nil), "nil interface method call", pos, fr)
		s.pc = e.st.And(s.pc, e.st.Not(recv.Nil))
	}
	if n, ok := recv.Dyn.(*types.Named); ok && n.Obj().Pkg() == nil {
		// engine stub type
		if h, ok := stubMethods[n.Obj().Name()+"."+m.Name()]; ok {
			return h(e, fr, s, recv, args, pos)
		}
		if strings.HasPrefix(n.Obj().Name(), "reader:") && m.Name() == "Read" {
			return e.readerRead(fr, s, recv, args[0].(*SliceV), pos)
		}
		if strings.HasPrefix(n.Obj().Name(), "extern:") {
			panic(unsupported("method %s on external object %s at %s", m.Name(), n.Obj().Name(), pos))
		}
		panic(unsupported("stub method %s.%s at %s", n.Obj().Name(), m.Name(), pos))
	}
	fn := e.prog.LookupMethod(recv.Dyn, m.Pkg(), m.Name())
	if fn == nil {
		panic(unsupported("method %s not found on %s", m.Name(), recv.Dyn))
	}
	all := append([]Value{recv.Val}, args...)
	return e.callStatic(fr, s, fn, all, pos)
}

func (e *Engine) builtin(fr *Frame, s *State, b *ssa.Builtin, args []Value, sargs []ssa.Value, pos string) Value {
	switch b.Name() {
	case "len":
		switch x := args[0].(type) {
		case *SliceV:
			return x.Len
		case *StrV:
			if x.Blob != nil {
				return x.Blob.Len
			}
			if x.Opaque {
				panic(unsupported("len of opaque string"))
			}
			return e.st.BVu(uint64(len(x.Bytes)), e.intw)
		case nil:
			return e.st.BVu(0, e.intw)
		}
	case "cap":
		if x, ok := args[0].(*SliceV); ok {
			return x.Cap
		}
	case "copy":
		return e.doCopy(fr, s, args[0], args[1], pos)
	case "ssa:wrapnilchk":
		return args[0]
	case "append":
		// append(nil-or-slice, elems...) with concrete lengths only
		dst, _ := args[0].(*SliceV)
		src, _ := args[1].(*SliceV)
		if dst == nil {
			z := e.st.BVu(0, e.intw)
			dst = &SliceV{P: &Ptr{}, Len: z, Cap: z}
		}
		if src == nil {
			return dst
		}
		if !dst.Len.IsConst() || !src.Len.IsConst() {
			panic(unsupported("append with symbolic lengths at %s", pos))
		}
		dl, sl := int(dst.Len.Val.Int64()), int(src.Len.Val.Int64())
		et := sargs[0].Type().Underlying().(*types.Slice).Elem()
		ec := e.cellCount(et)
		if dst.Cap != nil && dst.Cap.IsConst() && int64(dl+sl) <= dst.Cap.Val.Int64() && len(dst.P.Alts) > 0 {
			// enough capacity: Go appends in place (the backing array of dst is written; a caller-supplied or
			// package-level backing array therefore shows up in the store log)
			vals := make([]Value, sl*ec)
			for k := range vals {
				vals[k] = e.load(s, e.ptrAdd(src.P, k), leafT, pos, fr)
			}
			for k, v := range vals {
				e.storeVal(s, e.ptrAdd(dst.P, dl*ec+k), v, leafT, pos, fr)
			}
			return &SliceV{P: dst.P, Len: e.st.BVu(uint64(dl+sl), e.intw), Cap: dst.Cap}
		}
		arr := types.NewArray(et, int64(dl+sl))
		o := e.allocTyped("append", ObjLocal, arr)
		o.owner = s
		s.born = append(s.born, o)
		np := ptrTo(o, 0, e.st.True())
		for k := 0; k < dl*ec; k++ {
			v := e.load(s, e.ptrAdd(dst.P, k), leafT, pos, fr)
			e.storeRaw(s, e.ptrAdd(np, k), v)
		}
		for k := 0; k < sl*ec; k++ {
			v := e.load(s, e.ptrAdd(src.P, k), leafT, pos, fr)
			e.storeRaw(s, e.ptrAdd(np, dl*ec+k), v)
		}
		n := e.st.BVu(uint64(dl+sl), e.intw)
		return &SliceV{P: np, Len: n, Cap: n}
	}
	panic(unsupported("builtin %s at %s", b.Name(), pos))
}

var leafT = types.Typ[types.Uint8] // any single-cell type

func (e *Engine) storeRaw(s *State, p *Ptr, v Value) {
	for _, a := range p.Alts {
		cells := s.cellsW(a.Obj)
		if a.G.IsTrue() {
			cells[a.Off] = v
		} else {
			cells[a.Off] = e.mergeValue(a.G, v, cells[a.Off])
		}
	}
}

// doCopy implements copy(dst, src) for byte-like element types (1 cell per element).
func (e *Engine) doCopy(fr *Frame, s *State, dv, sv Value, pos string) Value {
	dst, _ := dv.(*SliceV)
	if dst == nil {
		return e.st.BVu(0, e.intw)
	}
	var srcLen *Term
	var srcAt func(k int) Value
	switch x := sv.(type) {
	case *SliceV:
		srcLen = x.Len
		srcAt = func(k int) Value { return e.load(s, e.ptrAdd(x.P, k), leafT, pos, fr) }
	case *StrV:
		if x.Blob != nil || x.Opaque {
			panic(unsupported("copy from opaque string"))
		}
		srcLen = e.st.BVu(uint64(len(x.Bytes)), e.intw)
		srcAt = func(k int) Value { return x.Bytes[k] }
	case nil:
		return e.st.BVu(0, e.intw)
	default:
		panic(unsupported("copy from %T", sv))
	}
	// n = min(len(dst), len(src))
	n := e.st.Ite(e.st.BVUlt(dst.Len, srcLen), dst.Len, srcLen)
	if n.IsConst() {
		cnt := int(n.Val.Int64())
		vals := make([]Value, cnt)
		for k := 0; k < cnt; k++ {
			vals[k] = srcAt(k)
		}
		for k := 0; k < cnt; k++ {
			e.storeVal(s, e.ptrAdd(dst.P, k), vals[k], leafT, pos, fr)
		}
		return n
	}
	// symbolic count: need a concrete upper bound from one side
	var ub int
	switch {
	case dst.Len.IsConst():
		ub = int(dst.Len.Val.Int64())
	case srcLen.IsConst():
		ub = int(srcLen.Val.Int64())
	default:
		panic(unsupported("copy with two symbolic lengths at %s", pos))
	}
	if src, ok := sv.(*SliceV); ok && len(src.P.Alts) == 1 && src.P.Alts[0].Obj != nil && src.P.Alts[0].Obj.Kind == ObjBlob {
		for k := 0; k < ub; k++ {
			g := e.st.BVUlt(e.st.BVu(uint64(k), e.intw), n)
			old := e.load(s, e.ptrAdd(dst.P, k), leafT, pos, fr)
			nv := e.blobByte(src.P.Alts[0].Obj.Blob, e.st.BVu(uint64(src.P.Alts[0].Off+k), e.intw))
			e.storeVal(s, e.ptrAdd(dst.P, k), e.mergeValue(g, nv, old), leafT, pos, fr)
		}
		return n
	}
	panic(unsupported("copy with symbolic length at %s", pos))
}

// ---------------------------------------------------------------------------
// standard library intrinsics

type stdHandler func(e *Engine, fr *Frame, s *State, args []Value, pos string) Value

var stdIntrinsics map[string]stdHandler

// tiny foreign functions that are inlined from their real SSA
// small pure standard-library packages whose functions are executed from their real SSA when no exact
// intrinsic is registered (a refactoring of the code under test may start using them)
func inlineForeignPkg(name string) bool {
	for _, p := range []string{"crypto/subtle.", "math/bits.", "encoding/binary.", "(encoding/binary.littleEndian).", "(encoding/binary.bigEndian).", "bytes.", "sort."} {
		if strings.HasPrefix(name, p) {
			return true
		}
	}
	return false
}

var inlineForeign = map[string]bool{
	"(crypto.Hash).HashFunc": true,
}

type stubHandler func(e *Engine, fr *Frame, s *State, recv *Iface, args []Value, pos string) Value

var stubMethods map[string]stubHandler

func init() {
	stdIntrinsics = map[string]stdHandler{
		"math/bits.Mul64": func(e *Engine, fr *Frame, s *State, args []Value, pos string) Value {
			a, b := args[0].(*Term), args[1].(*Term)
			p := e.st.BVMul(e.st.Zext(a, 64), e.st.Zext(b, 64))
			return Tuple{e.st.Extract(p, 127, 64), e.st.Extract(p, 63, 0)}
		},
		"math/bits.Add64": func(e *Engine, fr *Frame, s *State, args []Value, pos string) Value {
			a, b, c := args[0].(*Term), args[1].(*Term), args[2].(*Term)
			sum := e.st.BVAdd(e.st.BVAdd(e.st.Zext(a, 1), e.st.Zext(b, 1)), e.st.Zext(c, 1))
			return Tuple{e.st.Extract(sum, 63, 0), e.st.Zext(e.st.Extract(sum, 64, 64), 63)}
		},
		"math/bits.Sub64": func(e *Engine, fr *Frame, s *State, args []Value, pos string) Value {
			a, b, c := args[0].(*Term), args[1].(*Term), args[2].(*Term)
			d := e.st.BVSub(e.st.BVSub(e.st.Zext(a, 1), e.st.Zext(b, 1)), e.st.Zext(c, 1))
			return Tuple{e.st.Extract(d, 63, 0), e.st.Zext(e.st.Extract(d, 64, 64), 63)}
		},
		"(encoding/binary.littleEndian).Uint64":    leUint(8),
		"(encoding/binary.littleEndian).Uint32":    leUint(4),
		"(encoding/binary.littleEndian).Uint16":    leUint(2),
		"(encoding/binary.littleEndian).PutUint64": lePut(8),
		"(encoding/binary.littleEndian).PutUint32": lePut(4),
		"(encoding/binary.littleEndian).PutUint16": lePut(2),
		"bytes.Equal": func(e *Engine, fr *Frame, s *State, args []Value, pos string) Value {
			r, sec := e.bytesEqual(fr, s, args[0], args[1], pos)
			if !fr.harn {
				e.H.taintSite("bytes.Equal@" + pos)
			}
			if sec && !fr.harn {
				e.H.addTaint(e, "variable-time comparison (bytes.Equal)", pos, fr.fn.String())
			}
			return r
		},
		"crypto/subtle.ConstantTimeCompare": func(e *Engine, fr *Frame, s *State, args []Value, pos string) Value {
			r, _ := e.bytesEqual(fr, s, args[0], args[1], pos)
			return e.st.Ite(r, e.st.BVu(1, e.intw), e.st.BVu(0, e.intw))
		},
		"crypto/subtle.ConstantTimeCopy": func(e *Engine, fr *Frame, s *State, args []Value, pos string) Value {
			v := args[0].(*Term)
			x, y := args[1].(*SliceV), args[2].(*SliceV)
			if !x.Len.IsConst() || !y.Len.IsConst() {
				panic(unsupported("ConstantTimeCopy with symbolic lengths"))
			}
			if x.Len.Val.Cmp(y.Len.Val) != 0 {
				e.H.addPanic(e, s, s.pc, "subtle: slices have different lengths", pos, fr)
				s.dead = true
				return nil
			}
			n := int(x.Len.Val.Int64())
			// x[i] = x[i]&xmask | y[i]&ymask with xmask = byte(v-1), ymask = byte(^(v-1))
			xm := e.st.Extract(e.st.BVSub(v, e.st.BVu(1, v.S.W)), 7, 0)
			ym := e.st.BVNot(xm)
			for k := 0; k < n; k++ {
				xv := e.load(s, e.ptrAdd(x.P, k), leafT, pos, fr).(*Term)
				yv := e.load(s, e.ptrAdd(y.P, k), leafT, pos, fr).(*Term)
				nv := e.st.BVOr(e.st.BVAnd(xv, xm), e.st.BVAnd(yv, ym))
				e.storeVal(s, e.ptrAdd(x.P, k), nv, leafT, pos, fr)
			}
			return nil
		},
		"crypto/sha512.New": func(e *Engine, fr *Frame, s *State, args []Value, pos string) Value {
			o := e.newObject("sha512", ObjStub, nil, 1, []Value{e.st.SeqEmpty()})
			o.owner = s
			s.born = append(s.born, o)
			e.H.hashObjs++
			return &Iface{Dyn: e.stubType("hashstub"), Val: ptrTo(o, 0, e.st.True())}
		},
		// rune counting: the result depends on the content; any value between 0 and the byte length (a
		// multi-byte string has fewer runes than bytes) -- over-approximation, noted in the evidence
		"unicode/utf8.RuneCountInString": func(e *Engine, fr *Frame, s *State, args []Value, pos string) Value {
			return e.runeCount(fr, s, args[0], pos)
		},
		"unicode/utf8.RuneCount": func(e *Engine, fr *Frame, s *State, args []Value, pos string) Value {
			return e.runeCount(fr, s, args[0], pos)
		},
		// sync.Pool: Get returns a New() object that may have been used before.  For the hash objects the
		// library pools, "used before" means an arbitrary sequence of bytes already written (a fresh sequence
		// symbol, possibly empty); Put is a no-op.  Code that resets the object before use is unaffected.
		"(*sync.Pool).Get": func(e *Engine, fr *Frame, s *State, args []Value, pos string) Value {
			p, ok := args[0].(*Ptr)
			if !ok || len(p.Alts) == 0 {
				panic(unsupported("sync.Pool.Get on an unknown pool at %s", pos))
			}
			pt := fr.fn.Prog.ImportedPackage("sync")
			if pt == nil {
				panic(unsupported("sync.Pool without package sync at %s", pos))
			}
			st := pt.Pkg.Scope().Lookup("Pool").Type().Underlying().(*types.Struct)
			idx := -1
			for i := 0; i < st.NumFields(); i++ {
				if st.Field(i).Name() == "New" {
					idx = i
				}
			}
			if idx < 0 {
				panic(unsupported("sync.Pool has no New field"))
			}
			nv := e.load(s, e.ptrAdd(p, e.fieldOffset(st, idx)), st.Field(idx).Type(), pos, fr)
			var obj Value
			switch c := nv.(type) {
			case *Closure:
				obj = e.callFunction(s, c.Fn, nil, c.Bind)
			case *FuncV:
				obj = e.callFunction(s, c.Fn, nil, nil)
			default:
				panic(unsupported("sync.Pool.Get: pool without a New function at %s", pos))
			}
			if ifc, ok := obj.(*Iface); ok && ifc.Dyn == e.stubType("hashstub") {
				hp := ifc.Val.(*Ptr)
				prior := e.st.Sym(fmt.Sprintf("pool_prior_%d", e.H.nextSym()), SeqSort)
				e.storeRaw(s, hp, prior)
				e.H.notes = append(e.H.notes, "sync.Pool.Get at "+pos+": pooled hash object returned with arbitrary prior content")
				return obj
			}
			panic(unsupported("sync.Pool.Get for objects other than hash states at %s", pos))
		},
		"(*sync.Pool).Put": func(e *Engine, fr *Frame, s *State, args []Value, pos string) Value {
			return nil
		},
		"errors.New": func(e *Engine, fr *Frame, s *State, args []Value, pos string) Value {
			return &Iface{Dyn: e.stubType("errstub"), Val: e.newErrID()}
		},
		"fmt.Errorf": func(e *Engine, fr *Frame, s *State, args []Value, pos string) Value {
			return &Iface{Dyn: e.stubType("errstub"), Val: e.newErrID()}
		},
		"strconv.Itoa": func(e *Engine, fr *Frame, s *State, args []Value, pos string) Value {
			return &StrV{Opaque: true}
		},
		"io.ReadFull": func(e *Engine, fr *Frame, s *State, args []Value, pos string) Value {
			r := args[0].(*Iface)
			buf := args[1].(*SliceV)
			return e.readFull(fr, s, r, buf, pos)
		},
	}
	stubMethods = map[string]stubHandler{
		"hashstub.Write": func(e *Engine, fr *Frame, s *State, recv *Iface, args []Value, pos string) Value {
			p := recv.Val.(*Ptr)
			cur := e.load(s, p, seqT, pos, fr).(*Term)
			piece := e.seqOfSlice(fr, s, args[0], pos)
			e.storeRaw(s, p, e.st.SeqConcat(cur, piece))
			var n *Term
			if sl, ok := args[0].(*SliceV); ok {
				n = sl.Len
			} else {
				n = e.st.BVu(0, e.intw)
			}
			return Tuple{n, &Iface{}}
		},
		"hashstub.Reset": func(e *Engine, fr *Frame, s *State, recv *Iface, args []Value, pos string) Value {
			e.storeRaw(s, recv.Val.(*Ptr), e.st.SeqEmpty())
			return nil
		},
		"hashstub.Sum": func(e *Engine, fr *Frame, s *State, recv *Iface, args []Value, pos string) Value {
			p := recv.Val.(*Ptr)
			cur := e.load(s, p, seqT, pos, fr).(*Term)
			e.H.hashCalls++
			d := e.st.UF("H", BV(512), cur)
			var digest []Value
			for k := 0; k < 64; k++ {
				digest = append(digest, e.st.Extract(d, 511-8*k, 504-8*k))
			}
			return e.appendBytes(fr, s, args[0], digest, pos)
		},
		"hashstub.Size":      func(e *Engine, fr *Frame, s *State, recv *Iface, args []Value, pos string) Value { return e.st.BVu(64, e.intw) },
		"hashstub.BlockSize": func(e *Engine, fr *Frame, s *State, recv *Iface, args []Value, pos string) Value { return e.st.BVu(128, e.intw) },
	}
}

var seqT types.Type = types.Typ[types.Uint8]

func leUint(n int) stdHandler {
	return func(e *Engine, fr *Frame, s *State, args []Value, pos string) Value {
		b := args[len(args)-1].(*SliceV)
		ok := e.st.BVUle(e.st.BVu(uint64(n), e.intw), b.Len)
		if !e.boundsCheck(fr, s, ok, "index out of range (binary.LittleEndian)", pos) {
			return nil
		}
		var r *Term
		for k := 0; k < n; k++ {
			v := e.load(s, e.ptrAdd(b.P, k), leafT, pos, fr).(*Term)
			if r == nil {
				r = v
			} else {
				r = e.st.Concat(v, r)
			}
		}
		return r
	}
}

func lePut(n int) stdHandler {
	return func(e *Engine, fr *Frame, s *State, args []Value, pos string) Value {
		b := args[len(args)-2].(*SliceV)
		v := args[len(args)-1].(*Term)
		ok := e.st.BVUle(e.st.BVu(uint64(n), e.intw), b.Len)
		if !e.boundsCheck(fr, s, ok, "index out of range (binary.LittleEndian)", pos) {
			return nil
		}
		for k := 0; k < n; k++ {
			e.storeVal(s, e.ptrAdd(b.P, k), e.st.Extract(v, 8*k+7, 8*k), leafT, pos, fr)
		}
		return nil
	}
}

// bytesEqual returns the Bool term for equality of two byte slices and whether a secret is involved.
func (e *Engine) bytesEqual(fr *Frame, s *State, av, bv Value, pos string) (*Term, bool) {
	a, _ := av.(*SliceV)
	b, _ := bv.(*SliceV)
	z := e.st.BVu(0, e.intw)
	if a == nil {
		a = &SliceV{P: &Ptr{}, Len: z, Cap: z}
	}
	if b == nil {
		b = &SliceV{P: &Ptr{}, Len: z, Cap: z}
	}
	if !a.Len.IsConst() || !b.Len.IsConst() {
		if a.Len.IsConst() != b.Len.IsConst() {
			// one symbolic: equal only if lengths equal; case split on the concrete side
			c := a
			o := b
			if b.Len.IsConst() {
				c, o = b, a
			}
			n := int(c.Len.Val.Int64())
			r := e.st.Eq(o.Len, c.Len)
			sec := false
			for k := 0; k < n; k++ {
				x := e.load(s, e.ptrAdd(c.P, k), leafT, pos, fr).(*Term)
				y := e.loadGuarded(s, e.ptrAdd(o.P, k), pos, fr)
				if x.Sec || y.Sec {
					sec = true
				}
				r = e.st.And(r, e.st.Eq(x, y))
			}
			return r, sec
		}
		panic(unsupported("byte comparison with two symbolic lengths at %s", pos))
	}
	if a.Len.Val.Cmp(b.Len.Val) != 0 {
		return e.st.False(), false
	}
	n := int(a.Len.Val.Int64())
	sec := false
	if n == 0 {
		return e.st.True(), false
	}
	// compare as one wide value: slices of a single term recombine (concat of adjacent extracts), which keeps
	// "all bytes of T are zero" as one equation instead of n byte equations
	var wa, wb *Term
	for k := 0; k < n; k++ {
		x := e.load(s, e.ptrAdd(a.P, k), leafT, pos, fr).(*Term)
		y := e.load(s, e.ptrAdd(b.P, k), leafT, pos, fr).(*Term)
		if x.Sec || y.Sec {
			sec = true
		}
		if wa == nil {
			wa, wb = x, y
		} else {
			wa, wb = e.st.Concat(x, wa), e.st.Concat(y, wb)
		}
	}
	return e.st.Eq(wa, wb), sec
}

// loadGuarded loads a byte that may lie outside a blob's symbolic length (value irrelevant then).
func (e *Engine) loadGuarded(s *State, p *Ptr, pos string, fr *Frame) *Term {
	return e.load(s, p, leafT, pos, fr).(*Term)
}

// seqOfSlice returns the Seq term for the bytes of a slice.
func (e *Engine) seqOfSlice(fr *Frame, s *State, v Value, pos string) *Term {
	sl, _ := v.(*SliceV)
	if sl == nil {
		return e.st.SeqEmpty()
	}
	if sl.Len.IsConst() {
		n := int(sl.Len.Val.Int64())
		parts := make([]*Term, 0, n)
		for k := 0; k < n; k++ {
			b := e.load(s, e.ptrAdd(sl.P, k), leafT, pos, fr).(*Term)
			parts = append(parts, e.st.SeqUnit(b))
		}
		return e.st.SeqConcat(parts...)
	}
	if len(sl.P.Alts) == 1 && sl.P.Alts[0].Obj != nil && sl.P.Alts[0].Obj.Kind == ObjBlob && sl.P.Alts[0].Off == 0 && sl.Len == sl.P.Alts[0].Obj.Blob.Len {
		e.H.noteLoad(sl.P.Alts[0].Obj)
		return sl.P.Alts[0].Obj.Blob.Seq
	}
	if len(sl.P.Alts) == 0 {
		return e.st.SeqEmpty()
	}
	// merged slice: each alternative is nil (empty) or a whole blob; the length term must agree
	{
		var seq, ln *Term
		ok := true
		for i := len(sl.P.Alts) - 1; i >= 0; i-- {
			a := sl.P.Alts[i]
			var as, al *Term
			switch {
			case a.Obj == nil:
				as, al = e.st.SeqEmpty(), e.st.BVu(0, e.intw)
			case a.Obj.Kind == ObjBlob && a.Off == 0:
				as, al = a.Obj.Blob.Seq, a.Obj.Blob.Len
			default:
				ok = false
			}
			if !ok {
				break
			}
			if seq == nil {
				seq, ln = as, al
			} else {
				seq, ln = e.st.Ite(a.G, as, seq), e.st.Ite(a.G, al, ln)
			}
		}
		if ok && (ln == sl.Len || (e.feasCheck != nil && !e.feasCheck([]*Term{e.st.Not(e.st.Eq(ln, sl.Len))}))) {
			return seq
		}
	}
	panic(unsupported("hash input from symbolic-length non-blob slice at %s", pos))
}

// appendBytes implements append(dst, bytes...) semantics used by hash.Sum.
func (e *Engine) appendBytes(fr *Frame, s *State, dv Value, bytes []Value, pos string) Value {
	dst, _ := dv.(*SliceV)
	n := len(bytes)
	if dst == nil || len(dst.P.Alts) == 0 {
		arr := types.NewArray(types.Typ[types.Uint8], int64(n))
		o := e.allocTyped("sum", ObjLocal, arr)
		o.owner = s
		s.born = append(s.born, o)
		p := ptrTo(o, 0, e.st.True())
		for k := 0; k < n; k++ {
			e.storeRaw(s, e.ptrAdd(p, k), bytes[k])
		}
		ln := e.st.BVu(uint64(n), e.intw)
		return &SliceV{P: p, Len: ln, Cap: ln}
	}
	if !dst.Len.IsConst() || !dst.Cap.IsConst() {
		panic(unsupported("hash.Sum into symbolic-length slice"))
	}
	l, c := int(dst.Len.Val.Int64()), int(dst.Cap.Val.Int64())
	if l+n <= c {
		for k := 0; k < n; k++ {
			e.storeVal(s, e.ptrAdd(dst.P, l+k), bytes[k], leafT, pos, fr)
		}
		return &SliceV{P: dst.P, Len: e.st.BVu(uint64(l+n), e.intw), Cap: dst.Cap}
	}
	arr := types.NewArray(types.Typ[types.Uint8], int64(l+n))
	o := e.allocTyped("sum", ObjLocal, arr)
	o.owner = s
	s.born = append(s.born, o)
	p := ptrTo(o, 0, e.st.True())
	for k := 0; k < l; k++ {
		e.storeRaw(s, e.ptrAdd(p, k), e.load(s, e.ptrAdd(dst.P, k), leafT, pos, fr))
	}
	for k := 0; k < n; k++ {
		e.storeRaw(s, e.ptrAdd(p, l+k), bytes[k])
	}
	ln := e.st.BVu(uint64(l+n), e.intw)
	return &SliceV{P: p, Len: ln, Cap: ln}
}

// readFull models io.ReadFull(r, buf) for the engine's reader stubs.
func (e *Engine) readFull(fr *Frame, s *State, r *Iface, buf *SliceV, pos string) Value {
	if r.Dyn == nil {
		e.H.addPanic(e, s, s.pc, "nil reader", pos, fr)
		s.dead = true
		return nil
	}
	n, ok := r.Dyn.(*types.Named)
	if !ok || n.Obj().Pkg() != nil {
		panic(unsupported("io.ReadFull on reader of type %s", r.Dyn))
	}
	if !buf.Len.IsConst() {
		panic(unsupported("io.ReadFull with symbolic buffer length"))
	}
	ln := int(buf.Len.Val.Int64())
	e.H.readerCalls = append(e.H.readerCalls, readerCall{reader: n.Obj().Name(), n: ln, pos: pos, pc: s.pc})
	id := len(e.H.readerCalls)
	fail := e.st.Sym(fmt.Sprintf("rd%d_fail", id), BoolSort)
	secret := strings.HasPrefix(n.Obj().Name(), "reader:secret")
	for k := 0; k < ln; k++ {
		old := e.load(s, e.ptrAdd(buf.P, k), leafT, pos, fr)
		var nv *Term
		if secret {
			nv = e.st.SecretSym(fmt.Sprintf("rd%d_b%d", id, k), BV(8))
		} else {
			nv = e.st.Sym(fmt.Sprintf("rd%d_b%d", id, k), BV(8))
		}
		e.storeVal(s, e.ptrAdd(buf.P, k), e.mergeValue(fail, e.st.Sym(fmt.Sprintf("rd%d_junk%d", id, k), BV(8)), nv), leafT, pos, fr)
		_ = old
	}
	nres := e.st.Ite(fail, e.st.Sym(fmt.Sprintf("rd%d_n", id), BV(e.intw)), e.st.BVu(uint64(ln), e.intw))
	return Tuple{nres, &Iface{Dyn: e.stubType("errstub"), Val: e.symErrID(), Nil: e.st.Not(fail)}}
}

func bigFromString(s string) *big.Int {
	s = strings.ReplaceAll(s, "_", "")
	v, ok := new(big.Int).SetString(s, 0)
	if !ok {
		panic(unsupported("bad integer literal %q", s))
	}
	return v
}

// readerRead models one direct Read call on a harness reader: any count 0..len(p) may be returned (with or
// without an error), and exactly that many leading bytes of p are overwritten with fresh input bytes.
func (e *Engine) readerRead(fr *Frame, s *State, r *Iface, buf *SliceV, pos string) Value {
	if !buf.Len.IsConst() {
		panic(unsupported("Read with symbolic buffer length"))
	}
	ln := int(buf.Len.Val.Int64())
	name := r.Dyn.(*types.Named).Obj().Name()
	e.H.readerCalls = append(e.H.readerCalls, readerCall{reader: name, n: ln, pos: pos, pc: s.pc, direct: true})
	id := len(e.H.readerCalls)
	n := e.st.Sym(fmt.Sprintf("rd%d_n", id), BV(e.intw))
	e.H.assumes = append(e.H.assumes, e.st.BVUle(n, e.st.BVu(uint64(ln), e.intw)))
	fail := e.st.Sym(fmt.Sprintf("rd%d_fail", id), BoolSort)
	secret := strings.HasPrefix(name, "reader:secret")
	for k := 0; k < ln; k++ {
		old := e.load(s, e.ptrAdd(buf.P, k), leafT, pos, fr)
		var nv *Term
		if secret {
			nv = e.st.SecretSym(fmt.Sprintf("rd%d_b%d", id, k), BV(8))
		} else {
			nv = e.st.Sym(fmt.Sprintf("rd%d_b%d", id, k), BV(8))
		}
		g := e.st.BVUlt(e.st.BVu(uint64(k), e.intw), n)
		e.storeVal(s, e.ptrAdd(buf.P, k), e.mergeValue(g, nv, old), leafT, pos, fr)
	}
	return Tuple{n, &Iface{Dyn: e.stubType("errstub"), Val: e.symErrID(), Nil: e.st.Not(fail)}}
}
