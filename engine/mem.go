package main

import (
	"fmt"
	"go/types"
)

// State is one symbolic path (or a merged bundle of paths).  Memory is an
// overlay chain: writes go to the youngest state; merges fold children back
// into their parent.
type State struct {
	parent *State
	objs   map[*Object][]Value
	born   []*Object
	pc     *Term
	dead   bool
}

func (e *Engine) newState() *State {
	return &State{objs: map[*Object][]Value{}, pc: e.st.True()}
}

func (s *State) child(pc *Term) *State {
	return &State{parent: s, objs: map[*Object][]Value{}, pc: pc}
}

func (s *State) cells(o *Object) []Value {
	for p := s; p != nil; p = p.parent {
		if c, ok := p.objs[o]; ok {
			return c
		}
	}
	return o.Init
}

func (s *State) cellsW(o *Object) []Value {
	if c, ok := s.objs[o]; ok {
		return c
	}
	src := s.cells(o)
	c := make([]Value, len(src))
	copy(c, src)
	s.objs[o] = c
	return c
}

// adopt folds the writes of child c into s (c was forked from s and is the only survivor).
func (s *State) adopt(c *State) {
	for o, cells := range c.objs {
		s.objs[o] = cells
	}
	for _, o := range c.born {
		o.owner = s
		s.born = append(s.born, o)
	}
	s.pc = c.pc
	s.dead = c.dead
}

func (e *Engine) newObject(name string, kind ObjKind, t types.Type, n int, init []Value) *Object {
	e.objN++
	o := &Object{ID: e.objN, Name: fmt.Sprintf("%s#%d", name, e.objN), Kind: kind, N: n, Typ: t, Init: init}
	return o
}

func (e *Engine) allocTyped(name string, kind ObjKind, t types.Type) *Object {
	cells := e.zeroCells(t, nil)
	return e.newObject(name, kind, t, len(cells), cells)
}

func ptrTo(o *Object, off int, g *Term) *Ptr {
	return &Ptr{Alts: []PtrAlt{{G: g, Obj: o, Off: off}}}
}

func (e *Engine) ptrAdd(p *Ptr, delta int) *Ptr {
	if delta == 0 {
		return p
	}
	if p.View > 1 {
		delta *= p.View
	}
	out := &Ptr{Alts: make([]PtrAlt, len(p.Alts)), View: p.View}
	for i, a := range p.Alts {
		out.Alts[i] = PtrAlt{G: a.G, Obj: a.Obj, Off: a.Off + delta}
	}
	return out
}

// ptrIndex returns p + idx*stride where idx may be symbolic (bounded by n).
// The caller has already emitted the bounds obligation.
func (e *Engine) ptrIndex(p *Ptr, idx *Term, stride int, n int) *Ptr {
	if idx.IsConst() {
		return e.ptrAdd(p, int(idx.Val.Int64())*stride)
	}
	vals := e.enumIndex(idx, n)
	out := &Ptr{View: p.View}
	if p.View > 1 {
		stride *= p.View
	}
	for _, v := range vals {
		for _, a := range p.Alts {
			out.Alts = append(out.Alts, PtrAlt{G: e.st.And(a.G, v.g), Obj: a.Obj, Off: a.Off + v.k*stride})
		}
	}
	return e.normPtr(out)
}

type idxAlt struct {
	g *Term
	k int
}

// enumIndex enumerates the possible values of idx in [0,n).
func (e *Engine) enumIndex(idx *Term, n int) []idxAlt {
	if idx.IsConst() {
		return []idxAlt{{e.st.True(), int(idx.Val.Int64())}}
	}
	if iteConstTree(idx) {
		m := map[int]*Term{}
		var order []int
		var rec func(t *Term, g *Term)
		rec = func(t *Term, g *Term) {
			if t.IsConst() {
				k := int(toSigned(t.Val, t.S.W).Int64())
				if old, ok := m[k]; ok {
					m[k] = e.st.Or(old, g)
				} else {
					m[k] = g
					order = append(order, k)
				}
				return
			}
			rec(t.Args[1], e.st.And(g, t.Args[0]))
			rec(t.Args[2], e.st.And(g, e.st.Not(t.Args[0])))
		}
		rec(idx, e.st.True())
		var out []idxAlt
		for _, k := range order {
			if k >= 0 && k < n {
				out = append(out, idxAlt{m[k], k})
			}
		}
		return out
	}
	if n > e.maxIndexFan {
		panic(unsupported("symbolic index over %d elements", n))
	}
	var out []idxAlt
	for k := 0; k < n; k++ {
		out = append(out, idxAlt{e.st.Eq(idx, e.st.BVu(uint64(k), idx.S.W)), k})
	}
	return out
}

func (e *Engine) normPtr(p *Ptr) *Ptr {
	type key struct {
		o   *Object
		off int
	}
	m := map[key]int{}
	out := &Ptr{View: p.View}
	for _, a := range p.Alts {
		if a.G.IsFalse() {
			continue
		}
		k := key{a.Obj, a.Off}
		if i, ok := m[k]; ok {
			out.Alts[i].G = e.st.Or(out.Alts[i].G, a.G)
		} else {
			m[k] = len(out.Alts)
			out.Alts = append(out.Alts, a)
		}
	}
	return out
}

// mergeValue returns ite(c, a, b) structurally.
func (e *Engine) mergeValue(c *Term, a, b Value) Value {
	if a == nil {
		return b
	}
	if b == nil {
		return a
	}
	if p, ok := a.(*Poison); ok {
		return p
	}
	if p, ok := b.(*Poison); ok {
		return p
	}
	switch x := a.(type) {
	case *Term:
		y, ok := b.(*Term)
		if !ok {
			panic(unsupported("merge of term with %T", b))
		}
		if x == y {
			return x
		}
		if x.S != y.S {
			// an abstract integer cell merged with a plain limb cell (path that never wrote it): keep the
			// integer sort, reading the limb as its unsigned value
			if x.S.K == SInt && y.S.K == SBV {
				return e.st.Ite(c, x, e.st.BV2Nat(y))
			}
			if y.S.K == SInt && x.S.K == SBV {
				return e.st.Ite(c, e.st.BV2Nat(x), y)
			}
			return &Poison{Why: fmt.Sprintf("merge of sorts %v and %v", x.S, y.S)}
		}
		return e.st.Ite(c, x, y)
	case *Ptr:
		y, ok := b.(*Ptr)
		if !ok {
			panic(unsupported("merge of ptr with %T", b))
		}
		if samePtr(x, y) {
			return x
		}
		if x.View != y.View {
			panic(unsupported("merge of pointers with different views"))
		}
		out := &Ptr{View: x.View}
		xa, ya := x.Alts, y.Alts
		if len(xa) == 0 {
			xa = []PtrAlt{{G: e.st.True()}}
		}
		if len(ya) == 0 {
			ya = []PtrAlt{{G: e.st.True()}}
		}
		for _, al := range xa {
			out.Alts = append(out.Alts, PtrAlt{G: e.st.And(c, al.G), Obj: al.Obj, Off: al.Off})
		}
		nc := e.st.Not(c)
		for _, al := range ya {
			out.Alts = append(out.Alts, PtrAlt{G: e.st.And(nc, al.G), Obj: al.Obj, Off: al.Off})
		}
		return e.normPtr(out)
	case *SliceV:
		y, ok := b.(*SliceV)
		if !ok {
			panic(unsupported("merge of slice with %T", b))
		}
		if x == y {
			return x
		}
		return &SliceV{P: e.mergeValue(c, x.P, y.P).(*Ptr), Len: e.st.Ite(c, x.Len, y.Len), Cap: e.st.Ite(c, x.Cap, y.Cap)}
	case *Agg:
		y, ok := b.(*Agg)
		if !ok || len(x.Elems) != len(y.Elems) {
			panic(unsupported("merge of agg with %T", b))
		}
		out := &Agg{Elems: make([]Value, len(x.Elems))}
		for i := range x.Elems {
			out.Elems[i] = e.mergeValue(c, x.Elems[i], y.Elems[i])
		}
		return out
	case *Iface:
		y, ok := b.(*Iface)
		if !ok {
			panic(unsupported("merge of iface with %T", b))
		}
		if x == y {
			return x
		}
		xn, yn := e.ifaceNil(x), e.ifaceNil(y)
		if x.Dyn == nil && y.Dyn == nil {
			return x
		}
		if x.Dyn == nil {
			return &Iface{Dyn: y.Dyn, Val: y.Val, Nil: e.st.Ite(c, xn, yn)}
		}
		if y.Dyn == nil {
			return &Iface{Dyn: x.Dyn, Val: x.Val, Nil: e.st.Ite(c, xn, yn)}
		}
		if !types.Identical(x.Dyn, y.Dyn) {
			// errors of different concrete types: keep as opaque error
			if isErrorLike(x.Dyn) && isErrorLike(y.Dyn) {
				return &Iface{Dyn: x.Dyn, Val: nil, Nil: e.st.Ite(c, xn, yn)}
			}
			panic(unsupported("merge of interfaces with dynamic types %v and %v", x.Dyn, y.Dyn))
		}
		return &Iface{Dyn: x.Dyn, Val: e.mergeValue(c, x.Val, y.Val), Nil: e.st.Ite(c, xn, yn)}
	case *Closure:
		y, ok := b.(*Closure)
		if !ok || x.Fn != y.Fn {
			panic(unsupported("merge of closures"))
		}
		if x == y {
			return x
		}
		out := &Closure{Fn: x.Fn, Bind: make([]Value, len(x.Bind))}
		for i := range x.Bind {
			out.Bind[i] = e.mergeValue(c, x.Bind[i], y.Bind[i])
		}
		return out
	case *FuncV:
		y, ok := b.(*FuncV)
		if !ok || x.Fn != y.Fn || x.Bi != y.Bi {
			panic(unsupported("merge of funcs"))
		}
		return x
	case *StrV:
		y, ok := b.(*StrV)
		if !ok {
			panic(unsupported("merge of string with %T", b))
		}
		if x == y {
			return x
		}
		if x.Blob != nil || y.Blob != nil {
			if x.Blob == y.Blob {
				return x
			}
			// opaque strings (panic/error messages): keep opaque
			return &StrV{Opaque: true}
		}
		if x.Opaque || y.Opaque {
			return &StrV{Opaque: true}
		}
		if len(x.Bytes) != len(y.Bytes) {
			return &StrV{Opaque: true}
		}
		out := &StrV{Bytes: make([]*Term, len(x.Bytes))}
		for i := range x.Bytes {
			out.Bytes[i] = e.st.Ite(c, x.Bytes[i], y.Bytes[i])
		}
		return out
	case Tuple:
		y, ok := b.(Tuple)
		if !ok || len(x) != len(y) {
			panic(unsupported("merge of tuples"))
		}
		out := make(Tuple, len(x))
		for i := range x {
			out[i] = e.mergeValue(c, x[i], y[i])
		}
		return out
	}
	panic(unsupported("merge of %T", a))
}

func isErrorLike(t types.Type) bool {
	if n, ok := t.(*types.Named); ok && n.Obj().Name() == "vErr" {
		return true
	}
	return false
}

func samePtr(a, b *Ptr) bool {
	if a == b {
		return true
	}
	if a.View != b.View {
		return false
	}
	if len(a.Alts) != len(b.Alts) {
		return false
	}
	for i := range a.Alts {
		if a.Alts[i] != b.Alts[i] {
			return false
		}
	}
	return true
}

func (e *Engine) ifaceNil(x *Iface) *Term {
	if x.Nil != nil {
		return x.Nil
	}
	return e.st.Bool(x.Dyn == nil)
}

// mergeStates merges children s1 (under c) and s2 (under !c) back into parent s.
func (e *Engine) mergeStates(s *State, c *Term, s1, s2 *State) {
	seen := map[*Object]bool{}
	for o := range s1.objs {
		seen[o] = true
	}
	for o := range s2.objs {
		seen[o] = true
	}
	for o := range seen {
		c1 := s1.cells(o)
		c2 := s2.cells(o)
		if &c1[0] == &c2[0] {
			continue
		}
		_, in1 := s1.objs[o]
		_, in2 := s2.objs[o]
		// object created in only one branch: unreachable from the other; keep as is
		if in1 && !in2 && o.owner == s1 {
			s.objs[o] = c1
			continue
		}
		if in2 && !in1 && o.owner == s2 {
			s.objs[o] = c2
			continue
		}
		out := make([]Value, len(c1))
		for i := range c1 {
			if sameValue(c1[i], c2[i]) {
				out[i] = c1[i]
			} else {
				out[i] = e.mergeValue(c, c1[i], c2[i])
			}
		}
		s.objs[o] = out
	}
	for _, o := range s1.born {
		o.owner = s
		s.born = append(s.born, o)
	}
	for _, o := range s2.born {
		o.owner = s
		s.born = append(s.born, o)
	}
	// path condition
	if s1.pc == e.st.And(s.pc, c) && s2.pc == e.st.And(s.pc, e.st.Not(c)) {
		// unchanged
	} else {
		s.pc = e.st.Or(s1.pc, s2.pc)
	}
}

func sameValue(a, b Value) bool {
	switch x := a.(type) {
	case *Term:
		y, ok := b.(*Term)
		return ok && x == y
	case *Ptr:
		y, ok := b.(*Ptr)
		return ok && samePtr(x, y)
	case *SliceV:
		y, ok := b.(*SliceV)
		return ok && (x == y || (samePtr(x.P, y.P) && x.Len == y.Len && x.Cap == y.Cap))
	case *Iface:
		y, ok := b.(*Iface)
		return ok && x == y
	case *Closure:
		y, ok := b.(*Closure)
		return ok && x == y
	case *FuncV:
		y, ok := b.(*FuncV)
		return ok && x.Fn == y.Fn && x.Bi == y.Bi
	case *StrV:
		y, ok := b.(*StrV)
		return ok && x == y
	case nil:
		return b == nil
	}
	return false
}
