package main

import (
	"strconv"
	"encoding/json"
	"math/big"
	"flag"
	"fmt"
	"go/types"
	"os"
	"path/filepath"
	"regexp"
	"runtime/debug"
	"sort"
	"strings"
	"sync"
	"time"

	"golang.org/x/tools/go/packages"
	"golang.org/x/tools/go/ssa"
	"golang.org/x/tools/go/ssa/ssautil"
)

// the tree under test; VERIF_REPO points the machinery at a scratch copy (used to try seeded defects without
// touching /repo)
var repoDir = func() string {
	if d := os.Getenv("VERIF_REPO"); d != "" {
		return d
	}
	return "/repo"
}()
const modPath = "github.com/oasisprotocol/ed25519"

type BuildConfig struct {
	Name   string
	Tags   string
	GOARCH string
}

var buildConfigs = map[string]BuildConfig{
	"default":             {Name: "default"},
	"noasm":               {Name: "noasm", Tags: "noasm"},
	"force32bit":          {Name: "force32bit", Tags: "force32bit"},
	"appengine":           {Name: "appengine", Tags: "appengine"},
	"force32bit,appengine": {Name: "force32bit,appengine", Tags: "force32bit,appengine"},
	"386":                 {Name: "386", GOARCH: "386"},
}

var pkgDirs = map[string]string{
	"":                    modPath,
	"internal/curve25519": modPath + "/internal/curve25519",
	"internal/modm":       modPath + "/internal/modm",
	"internal/ge25519":    modPath + "/internal/ge25519",
	"extra/x25519":        modPath + "/extra/x25519",
}

type Loaded struct {
	prog *ssa.Program
	pkgs []*ssa.Package
	cfg  BuildConfig
	intw int
	all  []*packages.Package
}

// buildOverlay maps harness sources under harnessDir into /repo package directories.
func buildOverlay(harnessDir string) (map[string][]byte, error) {
	ov := map[string][]byte{}
	common, err := os.ReadFile(filepath.Join(harnessDir, "_common", "intrinsics.go.tmpl"))
	if err != nil {
		return nil, err
	}
	for dir, path := range pkgDirs {
		pkgName := path[strings.LastIndex(path, "/")+1:]
		src := strings.Replace(string(common), "package PKG", "package "+pkgName, 1)
		ov[filepath.Join(repoDir, dir, "zz_verif_intrinsics.go")] = []byte(src)
		hd := filepath.Join(harnessDir, pkgName)
		ents, err := os.ReadDir(hd)
		if err != nil {
			continue
		}
		for _, en := range ents {
			if strings.HasSuffix(en.Name(), ".go") {
				b, err := os.ReadFile(filepath.Join(hd, en.Name()))
				if err != nil {
					return nil, err
				}
				ov[filepath.Join(repoDir, dir, "zz_verif_"+en.Name())] = b
			}
		}
	}
	return ov, nil
}

func loadProgram(cfg BuildConfig, overlay map[string][]byte) (*Loaded, error) {
	env := append(os.Environ(), "GOFLAGS=-mod=mod", "GOPROXY=off", "GOSUMDB=off", "GOTOOLCHAIN=local", "CGO_ENABLED=0")
	if cfg.GOARCH != "" {
		env = append(env, "GOARCH="+cfg.GOARCH)
	}
	pc := &packages.Config{
		Mode:    packages.NeedName | packages.NeedFiles | packages.NeedCompiledGoFiles | packages.NeedImports | packages.NeedDeps | packages.NeedTypes | packages.NeedSyntax | packages.NeedTypesInfo | packages.NeedTypesSizes | packages.NeedModule,
		Dir:     repoDir,
		Env:     env,
		Overlay: overlay,
	}
	if cfg.Tags != "" {
		pc.BuildFlags = []string{"-tags=" + cfg.Tags}
	}
	pkgs, err := packages.Load(pc, "./...")
	if err != nil {
		return nil, err
	}
	var errs []string
	packages.Visit(pkgs, nil, func(p *packages.Package) {
		for _, e := range p.Errors {
			errs = append(errs, e.Error())
		}
	})
	if len(errs) > 0 {
		return nil, fmt.Errorf("package load errors:\n%s", strings.Join(errs, "\n"))
	}
	prog, spkgs := ssautil.AllPackages(pkgs, ssa.BuilderMode(0))
	prog.Build()
	intw := 64
	if len(pkgs) > 0 && pkgs[0].TypesSizes != nil {
		intw = int(pkgs[0].TypesSizes.Sizeof(types.Typ[types.Int])) * 8
	}
	return &Loaded{prog: prog, pkgs: spkgs, cfg: cfg, intw: intw, all: pkgs}, nil
}

func newEngine(l *Loaded) *Engine {
	e := &Engine{
		st:          NewStore(),
		prog:        l.prog,
		fset:        l.prog.Fset,
		intw:        l.intw,
		cfg:         l.cfg.Name,
		globals:     map[*ssa.Global]*Object{},
		maxIndexFan: 300,
		maxSymFork:  300,
		pdoms:       map[*ssa.Function]map[*ssa.BasicBlock]*ssa.BasicBlock{},
		replace:     map[*ssa.Function]*ssa.Function{},
		replaceName: map[string]*ssa.Function{},
		funcsSeen:   map[string]int{},
		stubTypes:   map[string]types.Type{},
		asmFuncs:    map[string]stdHandler{},
		harnCache:   map[*ssa.Function]bool{},
	}
	return e
}

func newRun(name string, fn *ssa.Function, tier int) *HarnessRun {
	return &HarnessRun{Name: name, Fn: fn, Tier: tier, taintSeen: map[string]bool{}, cutsUsed: map[string]string{}, globalsRead: map[string]bool{}, globalsWrit: map[string]bool{}}
}

// runInits executes the init functions of the repo packages into a base state.
func (e *Engine) runInits(l *Loaded) (*State, error) {
	base := e.newState()
	e.H = newRun("init", nil, 0)
	var err error
	func() {
		defer func() {
			if r := recover(); r != nil {
				if u, ok := r.(*Unsupported); ok {
					err = u
					return
				}
				panic(r)
			}
		}()
		for _, p := range l.pkgs {
			if p == nil || !e.isRepoPkg(p.Pkg.Path()) {
				continue
			}
			if f := p.Func("init"); f != nil {
				e.callInit(base, f)
			}
		}
	}()
	if err != nil {
		return nil, err
	}
	// heap objects that package-level variables point to after initialisation (a slice built with make/append in
	// a var initialiser, a table allocated in init) are shared state exactly like the variables themselves
	{
		seen := map[*Object]bool{}
		var mark func(v Value)
		var visit func(o *Object)
		visit = func(o *Object) {
			if o == nil || seen[o] {
				return
			}
			seen[o] = true
			if o.Kind == ObjLocal {
				o.Kind = ObjGlobal
				if o.Name == "" || !strings.Contains(o.Name, "package-level") {
					o.Name = o.Name + " (heap object reachable from a package-level variable)"
				}
			}
			for _, c := range base.cells(o) {
				mark(c)
			}
		}
		mark = func(v Value) {
			switch x := v.(type) {
			case *Ptr:
				for _, a := range x.Alts {
					visit(a.Obj)
				}
			case *SliceV:
				if x.P != nil {
					for _, a := range x.P.Alts {
						visit(a.Obj)
					}
				}
			case *Iface:
				mark(x.Val)
			case Tuple:
				for _, y := range x {
					mark(y)
				}
			}
		}
		for _, o := range e.globals {
			visit(o)
		}
	}
	if len(e.H.obs) > 0 {
		return nil, fmt.Errorf("init produced %d obligations (first: %s %s)", len(e.H.obs), e.H.obs[0].Msg, e.H.obs[0].Pos)
	}
	return base, nil
}

func (e *Engine) callInit(s *State, f *ssa.Function) {
	e.callFunction(s, f, nil, nil)
}

type RunResult struct {
	Harness   string
	Cases     int
	Obs       []*Obligation
	Taints    []TaintFinding
	Stores    []StoreEvent
	Cuts      map[string]string
	Funcs     map[string]int
	Errors    []string // unsupported / engine faults: harness inconclusive
	Notes     []string
	GlobalsRd []string
	GlobalsWr []string
	Steps     int64
	Misuse    []string
	Readers   int
	Hashes    int
	TaintSites map[string]int
	StoreSites map[string]int
}

// runHarness executes one harness function over all its vCase choices.
func runHarness(l *Loaded, base *State, e *Engine, fn *ssa.Function, tier int, caseFilter string) *RunResult {
	res := &RunResult{Harness: fn.Name(), Cuts: map[string]string{}, Funcs: map[string]int{}}
	var choices []int
	var ranges [][2]int
	// a case filter without the closing bracket ("[4 0 1") is a prefix: only the cases extending it are run
	nfix := 0
	if caseFilter != "" && !strings.HasSuffix(caseFilter, "]") {
		choices = parseCase(caseFilter + "]")
		nfix = len(choices)
		for range choices {
			ranges = append(ranges, [2]int{0, 0})
		}
		caseFilter = ""
	}
	for {
		h := newRun(fn.Name(), fn, tier)
		h.choices = append([]int{}, choices...)
		h.ranges = append([][2]int{}, ranges...)
		e.H = h
		e.replace = map[*ssa.Function]*ssa.Function{}
		e.replaceName = map[string]*ssa.Function{}
		e.funcsSeen = map[string]int{}
		s := base.child(e.st.True())
		func() {
			defer func() {
				if r := recover(); r != nil {
					if _, ok := r.(abortHarness); ok {
						return
					}
					if a, ok := r.(annotated); ok && strings.Contains(a.msg, "abortHarness") {
						return
					}
					if u, ok := r.(*Unsupported); ok {
						res.Errors = append(res.Errors, fmt.Sprintf("%s[%v]: %s", fn.Name(), h.choices, u.Msg))
						return
					}
					res.Errors = append(res.Errors, fmt.Sprintf("%s[%v]: engine fault: %v\n%s", fn.Name(), h.choices, r, debug.Stack()))
				}
			}()
			e.callFunction(s, fn, nil, nil)
		}()
		cs := fmt.Sprint(h.choices)
		for _, ob := range h.obs {
			ob.Case = cs
			ob.Name = strings.Replace(ob.Name, "[]", "["+cs+"]", 1)
		}
		// foreign stores become obligations
		for _, ev := range h.stores {
			ob := &Obligation{Kind: ObStore, Hyps: append(append([]*Term{}, h.assumes...), ev.Cond), Goal: e.st.False(), Pos: ev.Pos,
				Msg: fmt.Sprintf("store to %s object %s in %s", kindName(ev.Kind), ev.Obj, ev.Fn), Harness: h.Name, Case: cs}
			ob.Name = fmt.Sprintf("%s[%s]/%s#%d@%s", h.Name, cs, ob.Kind, len(h.obs), ob.Pos)
			h.obs = append(h.obs, ob)
		}
		if caseFilter == "" || caseFilter == cs {
			res.Obs = append(res.Obs, h.obs...)
		}
		res.Taints = append(res.Taints, h.taints...)
		res.Notes = append(res.Notes, h.notes...)
		res.Misuse = append(res.Misuse, h.abstractMisuse...)
		if res.StoreSites == nil {
			res.StoreSites = map[string]int{}
		}
		for k, v := range h.storeSites {
			res.StoreSites[k] += v
		}
		if res.TaintSites == nil {
			res.TaintSites = map[string]int{}
		}
		for k, v := range h.taintSites {
			res.TaintSites[h.Name+":"+k] += v
		}
		res.Readers += len(h.readerCalls)
		res.Hashes += h.hashCalls
		for k, v := range h.cutsUsed {
			res.Cuts[k] = v
		}
		for k, v := range e.funcsSeen {
			res.Funcs[k] = v
		}
		for _, g := range sortedKeys(h.globalsRead) {
			res.GlobalsRd = append(res.GlobalsRd, g)
		}
		for _, g := range sortedKeys(h.globalsWrit) {
			res.GlobalsWr = append(res.GlobalsWr, g)
		}
		res.Cases++
		// next choice vector (odometer)
		choices = h.choices
		ranges = h.ranges
		k := len(choices) - 1
		for k >= nfix {
			if choices[k] < ranges[k][1] {
				choices[k]++
				choices = choices[:k+1]
				ranges = ranges[:k+1]
				break
			}
			k--
		}
		if k < nfix {
			break
		}
	}
	res.Steps = e.steps
	return res
}

func kindName(k ObjKind) string {
	switch k {
	case ObjCaller:
		return "caller-supplied"
	case ObjGlobal:
		return "package-level"
	case ObjBlob:
		return "caller-supplied (opaque)"
	}
	return "local"
}

// ---------------------------------------------------------------------------

func solveAll(e *Engine, obs []*Obligation, tier int, timeout time.Duration) {
	var wg sync.WaitGroup
	// every job runs a portfolio of 3-8 solver processes: 8 concurrent jobs keep the 16 cores busy without
	// starving the long obligations into their timeout
	njobs := 32
	if v, err := strconv.Atoi(os.Getenv("VERIF_JOBS")); err == nil && v > 0 {
		njobs = v
	}
	sem := make(chan struct{}, njobs)
	var mu sync.Mutex
	// queries must be rendered sequentially (the store is not thread-safe)
	// the queries of a job are rendered when the job starts (under renderMu: the store is not thread-safe), so
	// that only the queries of the running jobs are held in memory
	type job struct {
		ob   *Obligation
		prep func() []attempt
	}
	var jobs []job
	var renderMu sync.Mutex
	for _, ob := range obs {
		hyp := e.st.And(ob.Hyps...)
		if ob.Kind == ObReach {
			if hyp.IsFalse() {
				ob.Verdict = "unsat"
				ob.Solver = "simplifier"
				continue
			}
			if hyp.IsTrue() {
				ob.Verdict = "sat"
				ob.Solver = "simplifier"
				continue
			}
			roots := append([]*Term{}, ob.Hyps...)
			ob.Size = Size(roots...)
			ob := ob
			jobs = append(jobs, job{ob, func() []attempt {
				var as []attempt
				th := theoryOf(roots)
				q := e.st.buildQuery(ob.Hyps, nil, false, nil)
				for _, c := range solversFor(th, tier) {
					as = append(as, attempt{cfg: c, query: q, label: th, satExact: true})
				}
				if th == "lia" || th == "nia" {
					if nh, _, w, ok, _ := e.st.lowerIntToBV(ob.Hyps, nil); ok {
						q2 := e.st.buildQuery(nh, nil, false, nil)
						lab := fmt.Sprintf("bv%d lowered from int", w)
						as = append(as, attempt{cfg: z3new, query: q2, label: lab, satExact: true}, attempt{cfg: cvc5c, query: q2, label: lab, satExact: true})
					}
				}
				return as
			}})
			continue
		}
		if hyp.IsFalse() || ob.Goal.IsTrue() {
			ob.Verdict = "unsat"
			ob.Solver = "simplifier"
			continue
		}
		roots := append(append([]*Term{}, ob.Hyps...), ob.Goal)
		ob.Size = Size(roots...)
		if ob.Size > maxObligationNodes {
			// term growth beyond anything a solver would finish (a change to the code under test made a value
			// accumulate conditions): inconclusive, and not worth the memory of printing it
			ob.Verdict = "unknown"
			ob.Solver = fmt.Sprintf("not attempted: obligation has %d term nodes (limit %d)", ob.Size, maxObligationNodes)
			continue
		}
		var msyms []*Term
		for _, s := range Syms(roots...) {
			if s.S.K == SBV || s.S.K == SBool || s.S.K == SInt {
				msyms = append(msyms, s)
			}
		}
		th := theoryOf(roots)
		ob.Theory = th
		ob := ob
		jobs = append(jobs, job{ob, func() []attempt {
		var as []attempt
		direct := e.st.buildQuery(ob.Hyps, ob.Goal, true, msyms)
		hasBV := hasBVTerms(roots)
		switch th {
		case "seq":
			as = append(as, attempt{cfg: z3new, query: direct, label: "seq+uf", satExact: true})
			// hash applications as opaque atoms (sound for unsat): lets the integer reasoning go through
			n0 := len(as)
			e.addLifted(&as, ob, msyms, tier)
			for i := n0; i < len(as); i++ {
				as[i].satExact = false
				as[i].label += ", hash values opaque"
			}
		case "bv":
			as = append(as, attempt{cfg: z3new, query: direct, label: "bv", satExact: true}, attempt{cfg: cvc5c, query: direct, label: "bv", satExact: true})
			if ob.TryInt {
				e.addLifted(&as, ob, msyms, tier)
			}
		default: // lia / nia, possibly mixed with bit-vectors
			if nh, ng, w, ok, _ := e.st.lowerIntToBV(ob.Hyps, ob.Goal); ok && !ob.NoLower {
				q2 := e.st.buildQuery(nh, ng, true, msyms)
				lab := fmt.Sprintf("bv%d lowered from int", w)
				as = append(as, attempt{cfg: z3new, query: q2, label: lab, satExact: true}, attempt{cfg: cvc5c, query: q2, label: lab, satExact: true})
			}
			e.addLifted(&as, ob, msyms, tier)
			if !hasBV || len(as) == 0 {
				for _, c := range solversFor(th, tier) {
					as = append(as, attempt{cfg: c, query: direct, label: th, satExact: true})
				}
			}
		}
		return as
		}})
	}
	dumpDir := os.Getenv("VERIF_DUMP_ATTEMPTS")
	if dumpDir != "" {
		os.MkdirAll(dumpDir, 0o755)
	}
	if os.Getenv("VERIF_TIMES") != "" {
		mx := 0
		for _, j := range jobs {
			if j.ob.Size > mx {
				mx = j.ob.Size
			}
		}
		fmt.Fprintf(os.Stderr, "SIZE largest obligation: %d term nodes\n", mx)
	}
	for ji, j := range jobs {
		wg.Add(1)
		sem <- struct{}{}
		go func(ji int, j job) {
			defer wg.Done()
			defer func() { <-sem }()
			renderMu.Lock()
			as := j.prep()
			renderMu.Unlock()
			if dumpDir != "" {
				for ai, a := range as {
					if ai > 0 && a.query == as[ai-1].query {
						continue
					}
					os.WriteFile(filepath.Join(dumpDir, fmt.Sprintf("job%03d_a%d.smt2", ji, ai)), []byte("; "+j.ob.Name+"\n; "+j.ob.Msg+"\n; "+a.label+" lift-note="+j.ob.LiftNote+"\n"+a.query+"\n; SIDE\n"+a.side), 0o644)
				}
			}
			to := timeout
			if j.ob.Size > 20000 && to > 30*time.Second {
				to = 30 * time.Second // far larger than any obligation of the unchanged tree: give it a short try only
			}
			r := portfolioAttempts(as, to)
			mu.Lock()
			j.ob.Verdict = r.Verdict
			j.ob.Solver = r.Solver
			j.ob.Time = r.Time
			j.ob.Model = r.Model
			if os.Getenv("VERIF_TIMES") != "" && r.Time > 3 {
				fmt.Fprintf(os.Stderr, "TIME %6.1fs %-8s %s (%s) [%s]\n", r.Time, r.Verdict, j.ob.Name, j.ob.Msg, r.Solver)
			}
			if r.Model != nil {
				// integer-lifted models: map i!name back to bit-vector symbols
				for k, v := range r.Model {
					if strings.HasPrefix(k, "i!") {
						if n, ok := new(big.Int).SetString(v, 10); ok {
							j.ob.Model[strings.TrimPrefix(k, "i!")] = "#x" + n.Text(16)
						}
					}
				}
			}
			if r.Verdict == "error" || r.Verdict == "unknown" {
				j.ob.Msg += " [solver: " + firstLines(r.Raw, 2) + "]"
			}
			mu.Unlock()
		}(ji, j)
	}
	wg.Wait()
}

func hasBVTerms(ts []*Term) bool {
	seen := map[int]bool{}
	var stack []*Term
	stack = append(stack, ts...)
	for len(stack) > 0 {
		t := stack[len(stack)-1]
		stack = stack[:len(stack)-1]
		if seen[t.ID] {
			continue
		}
		seen[t.ID] = true
		if t.S.K == SBV && t.Op != OConst {
			return true
		}
		stack = append(stack, t.Args...)
	}
	return false
}

// addLifted adds the integer-lifted encoding of an obligation (exact; side conditions as a second query).
// obligations above these sizes are not sent to the solvers / not lifted to integers
const (
	maxObligationNodes = 60000
	maxLiftNodes       = 60000
)

func (e *Engine) addLifted(as *[]attempt, ob *Obligation, msyms []*Term, tier int) {
	if ob.Size > maxLiftNodes {
		ob.LiftNote = "obligation too large for the integer lifting"
		return
	}
	e.st.invPairs, e.st.invModulus = ob.InvPairs, ob.InvMod
	nh, ng, side, ok, why := e.st.liftToInt(ob.Hyps, ob.Goal, false)
	if !ok {
		ob.LiftNote = why
		return
	}
	roots := append(append([]*Term{}, nh...), ng)
	var ms []*Term
	for _, s := range Syms(roots...) {
		if s.S.K == SBool || s.S.K == SInt {
			ms = append(ms, s)
		}
	}
	q := e.st.buildQuery(nh, ng, true, ms)
	sideQ := ""
	nside := 0
	if !side.IsTrue() {
		sideQ = e.st.buildQuery(nh, side, true, nil)
		if side.Op == OAnd {
			nside = len(side.Args)
		} else {
			nside = 1
		}
	}
	th := theoryOf(roots)
	lab := fmt.Sprintf("int lifted from bv (%s, %d no-wrap side conditions)", th, nside)
	cfgs := []SolverCfg{z3new, cvc5c, z3seed(7)}
	if th == "nia" {
		cfgs = []SolverCfg{z3new, z3som, z3seed(7), z3seed(42), cvc5c}
	}
	for _, c := range cfgs {
		*as = append(*as, attempt{cfg: c, query: q, label: lab, satExact: true, side: sideQ})
	}
	if th == "nia" {
		// product atoms: every monomial becomes an opaque bounded integer (pure LIA; unsat carries over)
		if ah, ag, aside, ok2, _ := e.st.liftToInt(ob.Hyps, ob.Goal, true); ok2 {
			q2 := e.st.buildQuery(ah, ag, true, nil)
			s2 := ""
			if !aside.IsTrue() {
				s2 = e.st.buildQuery(ah, aside, true, nil)
			}
			lab2 := "int lifted from bv, monomials as opaque atoms (lia over-approximation)"
			for _, c := range []SolverCfg{z3new, cvc5c} {
				*as = append(*as, attempt{cfg: c, query: q2, label: lab2, satExact: false, side: s2})
			}
		}
	}
}

// ---------------------------------------------------------------------------

func main() {
	prop := flag.String("prop", "", "property id (C01..C20)")
	tierS := flag.String("tier", "quick", "quick|thorough")
	only := flag.String("harness", "", "regexp restricting harness names")
	cfgName := flag.String("config", "", "build configuration (default: per property)")
	harnessDir := flag.String("harness-dir", "/verif/harness", "harness sources")
	evDir := flag.String("evidence-dir", "/verif/evidence", "evidence output directory")
	dump := flag.String("dump", "", "directory to dump SMT queries of non-unsat obligations")
	caseF := flag.String("case", "", "restrict to one vCase vector, e.g. [3 1]")
	tmo := flag.Int("timeout", 0, "per-obligation solver timeout in seconds")
	list := flag.Bool("list", false, "list harnesses")
	flag.Parse()
	_ = json.Marshal
	tier := 0
	if *tierS == "thorough" {
		tier = 1
	}
	if os.Getenv("VERIF_TIER") == "thorough" {
		tier = 1
	}
	timeout := 180 * time.Second
	if tier == 1 {
		timeout = 600 * time.Second
	}
	if *tmo > 0 {
		timeout = time.Duration(*tmo) * time.Second
	}
	overlay, err := buildOverlay(*harnessDir)
	if err != nil {
		fmt.Fprintln(os.Stderr, "overlay:", err)
		os.Exit(2)
	}
	if *list {
		l, err := loadProgram(buildConfigs["default"], overlay)
		if err != nil {
			fmt.Fprintln(os.Stderr, err)
			os.Exit(2)
		}
		for _, h := range findHarnesses(l, "", nil) {
			fmt.Println(h.String())
		}
		return
	}
	if *prop == "" {
		fmt.Fprintln(os.Stderr, "need -prop")
		os.Exit(2)
	}
	var re *regexp.Regexp
	if *only != "" {
		re = regexp.MustCompile(*only)
	}
	startResourceWatchdog()
	os.Exit(checkProperty(*prop, tier, *tierS, re, *cfgName, overlay, *evDir, *dump, *caseF, timeout))
}

func findHarnesses(l *Loaded, prop string, re *regexp.Regexp) []*ssa.Function {
	var out []*ssa.Function
	for _, p := range l.pkgs {
		if p == nil || !strings.HasPrefix(p.Pkg.Path(), modPath) {
			continue
		}
		for name, m := range p.Members {
			f, ok := m.(*ssa.Function)
			if !ok || !strings.HasPrefix(name, "vh_") {
				continue
			}
			if prop != "" && !strings.HasPrefix(name, "vh_"+prop+"_") {
				continue
			}
			if re != nil && !re.MatchString(name) {
				continue
			}
			out = append(out, f)
		}
	}
	sort.Slice(out, func(i, j int) bool { return out[i].Name() < out[j].Name() })
	return out
}
