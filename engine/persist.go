package main

// A persistent z3 process for the many small path-feasibility queries (process start-up dominates them).

import (
	"bufio"
	"io"
	"os/exec"
	"strings"
	"sync"
	"time"
)

type persistentSolver struct {
	mu    sync.Mutex
	cmd   *exec.Cmd
	in    io.WriteCloser
	out   *bufio.Reader
	alive bool
}

var feasSolver persistentSolver

func (p *persistentSolver) start() bool {
	p.cmd = exec.Command("z3-new", "-in", "-t:10000")
	var err error
	p.in, err = p.cmd.StdinPipe()
	if err != nil {
		return false
	}
	so, err := p.cmd.StdoutPipe()
	if err != nil {
		return false
	}
	p.cmd.Stderr = nil
	p.out = bufio.NewReader(so)
	if err := p.cmd.Start(); err != nil {
		return false
	}
	p.alive = true
	return true
}

func (p *persistentSolver) stop() {
	if p.alive {
		p.in.Close()
		p.cmd.Process.Kill()
		p.cmd.Wait()
		p.alive = false
	}
}

// check returns "sat", "unsat" or "unknown" for the given query body (declarations + assertions, no check-sat).
func (p *persistentSolver) check(body string) string {
	p.mu.Lock()
	defer p.mu.Unlock()
	if !p.alive && !p.start() {
		return "unknown"
	}
	q := "(push 1)\n" + body + "(check-sat)\n(pop 1)\n(echo \"done!marker\")\n"
	if _, err := io.WriteString(p.in, q); err != nil {
		p.stop()
		return "unknown"
	}
	res := "unknown"
	done := make(chan string, 1)
	go func() {
		r := "unknown"
		for {
			line, err := p.out.ReadString('\n')
			if err != nil {
				done <- "dead"
				return
			}
			line = strings.TrimSpace(line)
			switch {
			case line == "sat" || line == "unsat" || line == "unknown":
				if r == "unknown" {
					r = line
				}
			case strings.Contains(line, "done!marker"):
				done <- r
				return
			case strings.HasPrefix(line, "(error"):
				r = "error"
			}
		}
	}()
	select {
	case r := <-done:
		if r == "dead" || r == "error" {
			p.stop()
			return "unknown"
		}
		res = r
	case <-time.After(15 * time.Second):
		p.stop()
		return "unknown"
	}
	return res
}
