package main

import (
	"fmt"
	"os"
	"go/types"
	"math/big"
	"sort"
	"strings"

	"golang.org/x/tools/go/ssa"
)

type ObKind string

const (
	ObAssert ObKind = "assert"
	ObPanic  ObKind = "panic-free"
	ObReach  ObKind = "reachable" // expected SAT (vacuity witness)
	ObUnwind ObKind = "unwind"
	ObStore  ObKind = "no-foreign-store"
)

type Obligation struct {
	Name    string
	Kind    ObKind
	Hyps    []*Term // conjunction (assumptions and path condition)
	Goal    *Term   // to prove under Hyps (ObReach: Hyps must be satisfiable)
	Pos     string
	Msg     string
	Theory  string // "bv", "int", "mixed"
	Lowered string
	TryInt   bool // also try the integer-lifted encoding for a pure BV obligation
	NoLower  bool
	LiftNote string
	InvPairs [][2]*Term
	InvMod   *big.Int
	Harness string
	Case    string

	// results
	Verdict string // "unsat","sat","unknown","error","trivial"
	Solver  string
	Time    float64
	Model   map[string]string
	Size    int
}

// abortHarness ends the symbolic execution of a harness early (the finding is already recorded)
type abortHarness struct{ why string }

type TaintFinding struct {
	Kind, Pos, Fn string
}

type StoreEvent struct {
	Cond *Term
	Obj  string
	Kind ObjKind
	Pos  string
	Fn   string
}

type readerCall struct {
	reader string
	n      int
	pos    string
	pc     *Term
	direct bool // a bare Read call (may deliver fewer bytes) rather than io.ReadFull
}

type catchRec struct {
	conds []*Term
	kinds []string
}

type HarnessRun struct {
	Name string
	Fn   *ssa.Function
	Case string
	Tier int

	assumes     []*Term
	obs         []*Obligation
	taints      []TaintFinding
	taintSeen   map[string]bool
	stores      []StoreEvent
	cutsUsed    map[string]string
	readerCalls []readerCall
	hashObjs    int
	hashCalls   int
	globalsRead map[string]bool
	globalsWrit map[string]bool

	choices []int
	ranges  [][2]int
	cidx    int

	catches    []*catchRec
	pruneForks bool
	noMerge    bool
	gen        map[*Term]*Term // active generalisation: term -> fresh symbol (vGeneralize)
	genSt      *Store
	enumFn     *ssa.Function // path enumeration restricted to the frames of this function (vLoopStep)
	loopOut    map[string]Value
	stopOnTaint bool
	invPairs   [][2]*Term
	invMod     *big.Int
	symN       int
	inputs     []inputRec // fresh inputs in creation order, for replay
	notes      []string
	nAssert    int
	abstractMisuse []string
	taintSites map[string]int
	storeSites map[string]int // store instructions of the code under test examined for their target object
	rawReads   int
}

type inputRec struct {
	Name string
	Kind string // "bytes","u64",...
	N    int
}

func (h *HarnessRun) hyps(e *Engine, s *State) []*Term {
	out := make([]*Term, 0, len(h.assumes)+1)
	out = append(out, h.assumes...)
	out = append(out, s.pc)
	return out
}

func (h *HarnessRun) addPanic(e *Engine, s *State, cond *Term, kind, pos string, fr *Frame) {
	if cond.IsFalse() {
		return
	}
	if n := len(h.catches); n > 0 {
		h.catches[n-1].conds = append(h.catches[n-1].conds, cond)
		h.catches[n-1].kinds = append(h.catches[n-1].kinds, kind+" at "+pos)
		return
	}
	ob := &Obligation{Kind: ObPanic, Hyps: append(append([]*Term{}, h.assumes...), cond), Goal: e.st.False(), Pos: pos, Msg: kind}
	h.add(ob)
}

func (h *HarnessRun) addUnwind(e *Engine, s *State, pos string) {
	ob := &Obligation{Kind: ObUnwind, Hyps: h.hyps(e, s), Goal: e.st.False(), Pos: pos, Msg: "loop unwinding bound reached"}
	h.add(ob)
}

func (h *HarnessRun) add(ob *Obligation) {
	if len(h.gen) > 0 {
		// generalisation: the obligation is stated (and must hold) for arbitrary values in place of the
		// generalised terms, constrained only by the hypotheses that mention them
		cache := map[*Term]*Term{}
		hy := make([]*Term, len(ob.Hyps))
		for i, t := range ob.Hyps {
			hy[i] = h.genSt.substitute(t, h.gen, cache)
		}
		ob.Hyps = hy
		if ob.Goal != nil {
			ob.Goal = h.genSt.substitute(ob.Goal, h.gen, cache)
		}
		ob.Msg += " [generalised]"
	}
	ob.InvPairs = append([][2]*Term{}, h.invPairs...)
	ob.InvMod = h.invMod
	ob.Harness = h.Name
	ob.Case = h.Case
	ob.Name = fmt.Sprintf("%s[%s]/%s#%d@%s", h.Name, h.Case, ob.Kind, len(h.obs), ob.Pos)
	h.obs = append(h.obs, ob)
}

func (h *HarnessRun) addTaint(e *Engine, kind, pos, fn string) {
	k := kind + "|" + pos
	if h.taintSeen[k] {
		return
	}
	h.taintSeen[k] = true
	h.taints = append(h.taints, TaintFinding{kind, pos, fn})
	if h.stopOnTaint {
		panic(abortHarness{"secret-dependent " + kind + " at " + pos})
	}
}

func (h *HarnessRun) storeSite(k string) {
	if h.storeSites == nil {
		h.storeSites = map[string]int{}
	}
	h.storeSites[k]++
}

func (h *HarnessRun) taintSite(k string) {
	if h.taintSites == nil {
		h.taintSites = map[string]int{}
	}
	h.taintSites[k]++
}

func (h *HarnessRun) noteLoad(o *Object) {
	if o.Kind == ObjGlobal {
		h.globalsRead[o.Name] = true
	}
}

func (h *HarnessRun) noteStore(e *Engine, s *State, a PtrAlt, pos string, fr *Frame) {
	if fr != nil && fr.harn {
		return
	}
	switch a.Obj.Kind {
	case ObjCaller, ObjGlobal, ObjBlob:
		if a.Obj.Fresh {
			return
		}
		fn := ""
		if fr != nil {
			fn = fr.fn.String()
		}
		if a.Obj.Kind == ObjGlobal {
			h.globalsWrit[a.Obj.Name] = true
		}
		h.stores = append(h.stores, StoreEvent{Cond: e.st.And(s.pc, a.G), Obj: a.Obj.Name, Kind: a.Obj.Kind, Pos: pos, Fn: fn})
	}
}

func (h *HarnessRun) feasible(e *Engine, s *State, c *Term) bool {
	// quick syntactic only; the solver-backed version is installed by the driver
	if e.feasCheck != nil {
		return e.feasCheck(append(h.hyps(e, s), c))
	}
	return true
}

// ---------------------------------------------------------------------------
// harness intrinsics

type hHandler func(e *Engine, fr *Frame, s *State, f *ssa.Function, args []Value, pos string) Value

var harnessIntrinsics map[string]hHandler

func constInt(v Value, what string) int {
	t, ok := v.(*Term)
	if !ok || !t.IsConst() {
		panic(unsupported("%s must be a concrete integer", what))
	}
	return int(toSigned(t.Val, t.S.W).Int64())
}

func constStr(v Value, what string) string {
	sv, ok := v.(*StrV)
	if !ok || sv.Blob != nil || sv.Opaque {
		panic(unsupported("%s must be a constant string", what))
	}
	b := make([]byte, len(sv.Bytes))
	for i, t := range sv.Bytes {
		if !t.IsConst() {
			panic(unsupported("%s must be a constant string", what))
		}
		b[i] = byte(t.Val.Int64())
	}
	return string(b)
}

func (e *Engine) freshBytes(s *State, name string, n, cp int, kind ObjKind, secret bool) *SliceV {
	arr := types.NewArray(types.Typ[types.Uint8], int64(cp))
	o := e.allocTyped(name, kind, arr)
	o.owner = s
	s.born = append(s.born, o)
	cells := make([]Value, cp)
	for k := 0; k < cp; k++ {
		nm := fmt.Sprintf("%s_%d", name, k)
		if secret {
			cells[k] = e.st.SecretSym(nm, BV(8))
		} else {
			cells[k] = e.st.Sym(nm, BV(8))
		}
	}
	o.Init = cells
	e.H.inputs = append(e.H.inputs, inputRec{Name: name, Kind: "bytes", N: cp})
	return &SliceV{P: ptrTo(o, 0, e.st.True()), Len: e.st.BVu(uint64(n), e.intw), Cap: e.st.BVu(uint64(cp), e.intw)}
}

func (e *Engine) newBlob(name string) *Object {
	b := &Blob{Name: name, Seq: e.st.Sym(name, SeqSort), Len: e.st.Sym(name+"_len", BV(e.intw))}
	o := e.newObject("blob:"+name, ObjBlob, nil, 0, nil)
	o.Blob = b
	// lengths are non-negative ints
	e.H.assumes = append(e.H.assumes, e.st.BVSle(e.st.BVu(0, e.intw), b.Len))
	return o
}

// valueTerms flattens a harness-supplied interface{} argument into solver terms.
func (e *Engine) valueTerms(fr *Frame, s *State, v Value, pos string) []*Term {
	switch x := v.(type) {
	case *Iface:
		return e.valueTerms(fr, s, x.Val, pos)
	case *Term:
		return []*Term{x}
	case *SliceV:
		if !x.Len.IsConst() {
			if len(x.P.Alts) == 1 && x.P.Alts[0].Obj != nil && x.P.Alts[0].Obj.Kind == ObjBlob {
				return []*Term{x.P.Alts[0].Obj.Blob.Seq}
			}
			panic(unsupported("symbolic-length slice as UF argument at %s", pos))
		}
		n := int(x.Len.Val.Int64())
		if n == 0 {
			return nil
		}
		var r *Term
		for k := 0; k < n; k++ {
			b := e.load(s, e.ptrAdd(x.P, k), leafT, pos, fr).(*Term)
			if b.S.K != SBV {
				return []*Term{b}
			}
			if r == nil {
				r = b
			} else {
				r = e.st.Concat(b, r)
			}
		}
		return []*Term{r}
	case *Agg:
		var out []*Term
		for _, c := range x.Elems {
			out = append(out, e.valueTerms(fr, s, c, pos)...)
		}
		return out
	case *Ptr:
		// pointer to an abstract-valued object: use cell 0
		c := e.load(s, x, leafT, pos, fr)
		return e.valueTerms(fr, s, c, pos)
	case *StrV:
		if x.Blob != nil {
			return []*Term{x.Blob.Seq}
		}
	}
	panic(unsupported("UF argument of type %T at %s", v, pos))
}

func (e *Engine) variadic(fr *Frame, s *State, v Value, pos string) []Value {
	sl, _ := v.(*SliceV)
	if sl == nil || len(sl.P.Alts) == 0 {
		return nil
	}
	n := int(sl.Len.Val.Int64())
	out := make([]Value, n)
	for k := 0; k < n; k++ {
		out[k] = e.load(s, e.ptrAdd(sl.P, k), leafT, pos, fr)
	}
	return out
}

func (e *Engine) ufArgs(fr *Frame, s *State, v Value, pos string) []*Term {
	var out []*Term
	for _, a := range e.variadic(fr, s, v, pos) {
		out = append(out, e.valueTerms(fr, s, a, pos)...)
	}
	return out
}

func resolveFn(v Value) *ssa.Function {
	switch x := v.(type) {
	case *Iface:
		return resolveFn(x.Val)
	case *FuncV:
		return x.Fn
	case *Closure:
		return x.Fn
	}
	return nil
}

func init() {
	harnessIntrinsics = map[string]hHandler{
		"vBytes": func(e *Engine, fr *Frame, s *State, f *ssa.Function, args []Value, pos string) Value {
			n := constInt(args[1], "vBytes length")
			return e.freshBytes(s, constStr(args[0], "name"), n, n, ObjCaller, false)
		},
		"vBytesCap": func(e *Engine, fr *Frame, s *State, f *ssa.Function, args []Value, pos string) Value {
			return e.freshBytes(s, constStr(args[0], "name"), constInt(args[1], "len"), constInt(args[2], "cap"), ObjCaller, false)
		},
		"vSecretBytes": func(e *Engine, fr *Frame, s *State, f *ssa.Function, args []Value, pos string) Value {
			n := constInt(args[1], "vSecretBytes length")
			return e.freshBytes(s, constStr(args[0], "name"), n, n, ObjCaller, true)
		},
		"vBlob": func(e *Engine, fr *Frame, s *State, f *ssa.Function, args []Value, pos string) Value {
			o := e.newBlob(constStr(args[0], "name"))
			return &SliceV{P: ptrTo(o, 0, e.st.True()), Len: o.Blob.Len, Cap: o.Blob.Len}
		},
		"vBlobString": func(e *Engine, fr *Frame, s *State, f *ssa.Function, args []Value, pos string) Value {
			o := e.newBlob(constStr(args[0], "name"))
			return &StrV{Blob: o.Blob}
		},
		"vNilBytes": func(e *Engine, fr *Frame, s *State, f *ssa.Function, args []Value, pos string) Value {
			z := e.st.BVu(0, e.intw)
			return &SliceV{P: &Ptr{}, Len: z, Cap: z}
		},
		"vU8":   freshInt(8),
		"vU32":  freshInt(32),
		"vU64":  freshInt(64),
		"vInt":  freshInt(0),
		"vI8":   freshInt(8),
		"vBool": func(e *Engine, fr *Frame, s *State, f *ssa.Function, args []Value, pos string) Value {
			nm := constStr(args[0], "name")
			e.H.inputs = append(e.H.inputs, inputRec{Name: nm, Kind: "bool"})
			return e.st.Sym(nm, BoolSort)
		},
		"vSecretU64": func(e *Engine, fr *Frame, s *State, f *ssa.Function, args []Value, pos string) Value {
			return e.st.SecretSym(constStr(args[0], "name"), BV(64))
		},
		"vAssume": func(e *Engine, fr *Frame, s *State, f *ssa.Function, args []Value, pos string) Value {
			c := args[0].(*Term)
			e.H.assumes = append(e.H.assumes, e.st.Implies(s.pc, c))
			return nil
		},
		"vAssert": func(e *Engine, fr *Frame, s *State, f *ssa.Function, args []Value, pos string) Value {
			c := args[0].(*Term)
			msg := constStr(args[1], "message")
			e.H.nAssert++
			ob := &Obligation{Kind: ObAssert, Hyps: e.H.hyps(e, s), Goal: c, Pos: pos, Msg: msg}
			e.H.add(ob)
			return nil
		},
		"vReach": func(e *Engine, fr *Frame, s *State, f *ssa.Function, args []Value, pos string) Value {
			ob := &Obligation{Kind: ObReach, Hyps: e.H.hyps(e, s), Goal: e.st.True(), Pos: pos, Msg: "reachability witness: " + constStr(args[0], "label")}
			e.H.add(ob)
			return nil
		},
		"vCase": func(e *Engine, fr *Frame, s *State, f *ssa.Function, args []Value, pos string) Value {
			lo, hi := constInt(args[0], "vCase lo"), constInt(args[1], "vCase hi")
			h := e.H
			var v int
			if h.cidx < len(h.choices) {
				v = h.choices[h.cidx]
			} else {
				v = lo
				h.choices = append(h.choices, v)
			}
			if h.cidx < len(h.ranges) {
				h.ranges[h.cidx] = [2]int{lo, hi}
			} else {
				h.ranges = append(h.ranges, [2]int{lo, hi})
			}
			h.cidx++
			return e.st.BVi(int64(v), e.intw)
		},
		"vTier": func(e *Engine, fr *Frame, s *State, f *ssa.Function, args []Value, pos string) Value {
			return e.st.BVi(int64(e.H.Tier), e.intw)
		},
		"vIs64": func(e *Engine, fr *Frame, s *State, f *ssa.Function, args []Value, pos string) Value {
			return e.st.Bool(e.intw == 64)
		},
		"vNote": func(e *Engine, fr *Frame, s *State, f *ssa.Function, args []Value, pos string) Value {
			e.H.notes = append(e.H.notes, constStr(args[0], "note"))
			return nil
		},
		"vLogInts": func(e *Engine, fr *Frame, s *State, f *ssa.Function, args []Value, pos string) Value {
			msg := fmt.Sprintf("%s %d %d", constStr(args[0], "label"), constInt(args[1], "a"), constInt(args[2], "b"))
			for _, n := range e.H.notes {
				if n == msg {
					return nil
				}
			}
			e.H.notes = append(e.H.notes, msg)
			return nil
		},
		"vNoMerge": func(e *Engine, fr *Frame, s *State, f *ssa.Function, args []Value, pos string) Value {
			e.H.noMerge = args[0].(*Term).IsTrue()
			return nil
		},
		"vStopOnTaint": func(e *Engine, fr *Frame, s *State, f *ssa.Function, args []Value, pos string) Value {
			e.H.stopOnTaint = args[0].(*Term).IsTrue()
			return nil
		},
		"vDebugEval": func(e *Engine, fr *Frame, s *State, f *ssa.Function, args []Value, pos string) Value {
			// prints the value of a term under the assignment given as "name=value,..." (debugging aid)
			env := map[string]*big.Int{}
			for _, kv := range strings.Split(constStr(args[1], "assignment"), ",") {
				p := strings.SplitN(kv, "=", 2)
				if len(p) == 2 {
					env[p[0]] = bigFromString(p[1])
				}
			}
			t := args[2].(*Term)
			fmt.Fprintf(os.Stderr, "DEBUG %s = %s   (pc=%s)\n", constStr(args[0], "label"), e.st.Eval(t, env, map[int]*big.Int{}).String(), e.st.Eval(s.pc, env, map[int]*big.Int{}).String())
			return nil
		},
		"vPrune": func(e *Engine, fr *Frame, s *State, f *ssa.Function, args []Value, pos string) Value {
			e.H.pruneForks = args[0].(*Term).IsTrue()
			return nil
		},
		"vReplace": func(e *Engine, fr *Frame, s *State, f *ssa.Function, args []Value, pos string) Value {
			o, r := resolveFn(args[0]), resolveFn(args[1])
			if o == nil || r == nil {
				panic(unsupported("vReplace needs two function values at %s", pos))
			}
			e.replace[o] = r
			return nil
		},
		"vReplaceName": func(e *Engine, fr *Frame, s *State, f *ssa.Function, args []Value, pos string) Value {
			r := resolveFn(args[1])
			if r == nil {
				panic(unsupported("vReplaceName needs a function value at %s", pos))
			}
			e.replaceName[constStr(args[0], "function name")] = r
			return nil
		},
		"vRestore": func(e *Engine, fr *Frame, s *State, f *ssa.Function, args []Value, pos string) Value {
			o := resolveFn(args[0])
			delete(e.replace, o)
			return nil
		},
		// vLoopStep(fn, nargs, args..., "phiName", value, ...) executes ONE iteration of the (first) loop of fn
		// from an arbitrary state: the frame is created with the given arguments, control starts at the loop
		// header with the header phis set to the given values, and stops when the header is reached again
		// (result 1; the new phi values are read with vLoopOutInt / vLoopOutBool) or when fn returns (result 0).
		// Branches in fn's own frame are explored path by path (the harness is re-executed per path); callees
		// fork and merge as usual.  The entry block of fn must not define values used inside the loop.
		"vLoopStep": func(e *Engine, fr *Frame, s *State, f *ssa.Function, args []Value, pos string) Value {
			fn := resolveFn(args[0])
			if fn == nil || fn.Blocks == nil {
				panic(unsupported("vLoopStep needs a function with a body at %s", pos))
			}
			nargs := constInt(args[1], "argument count")
			vs := e.variadic(fr, s, args[2], pos)
			un := func(v Value) Value {
				if i, ok := v.(*Iface); ok {
					return i.Val
				}
				return v
			}
			if len(vs) < nargs || len(fn.Params) != nargs || (len(vs)-nargs)%2 != 0 {
				panic(unsupported("vLoopStep: argument list does not match %s at %s", fn.String(), pos))
			}
			given := map[string]Value{}
			for i := nargs; i+1 < len(vs); i += 2 {
				given[constStr(un(vs[i]), "phi name")] = un(vs[i+1])
			}
			// loop headers with phis, in block order; "@loop", k selects the k-th (default: the first)
			var headers []*ssa.BasicBlock
			for _, b := range fn.Blocks {
				if _, ok := b.Instrs[0].(*ssa.Phi); !ok {
					continue
				}
				for _, pr := range b.Preds {
					if b.Dominates(pr) { // back edge
						headers = append(headers, b)
						break
					}
				}
			}
			which := 0
			if v, ok := given["@loop"]; ok {
				which = constInt(v, "loop index")
			}
			if which >= len(headers) {
				panic(unsupported("vLoopStep: %s has no loop header #%d with phis", fn.String(), which))
			}
			header := headers[which]
			nf := &Frame{fn: fn, regs: make(map[ssa.Value]Value), forks: map[ssa.Instruction]int{}, harn: false}
			// values defined before the loop and used inside it: address-taken locals can be supplied by name
			// (a pointer to a harness object of the same type); anything else is refused
			for _, b := range fn.Blocks {
				for _, in := range b.Instrs {
					v, ok := in.(ssa.Value)
					if !ok || v.Referrers() == nil || b == header {
						continue
					}
					usedInLoop := false
					for _, r := range *v.Referrers() {
						if r.Block() == nil {
							continue
						}
						if _, isPhi := r.(*ssa.Phi); isPhi && r.Block() == header {
							continue
						}
						if r.Block() != b && e.blockInLoop(fn, header, r.Block()) && !e.blockInLoop(fn, header, b) {
							usedInLoop = true
						}
					}
					if !usedInLoop {
						continue
					}
					if a, isAlloc := in.(*ssa.Alloc); isAlloc {
						if gv, ok := given[a.Comment]; ok {
							nf.regs[a] = gv
							continue
						}
					}
					panic(unsupported("vLoopStep: %s defines %s (%s) outside the loop and uses it inside; supply it by name", fn.String(), v.Name(), in.String()))
				}
			}
			var phis []Value
			var names []string
			for _, in := range header.Instrs {
				phi, ok := in.(*ssa.Phi)
				if !ok {
					break
				}
				v, ok := given[phi.Comment]
				if !ok {
					panic(unsupported("vLoopStep: no value given for loop variable %q of %s", phi.Comment, fn.String()))
				}
				phis = append(phis, v)
				names = append(names, phi.Comment)
			}
			if _, ok := e.funcsSeen[fn.String()]; !ok {
				n := 0
				for _, b := range fn.Blocks {
					n += len(b.Instrs)
				}
				e.funcsSeen[fn.String()] = n
			}
			for i, p := range fn.Params {
				nf.regs[p] = un(vs[i])
			}
			saved := e.H.enumFn
			e.H.enumFn = fn
			e.skipStopOnce = true
			e.depth++
			o := e.run(&nf, s, header, nil, header, phis)
			e.depth--
			e.H.enumFn = saved
			e.H.loopOut = map[string]Value{}
			switch o.k {
			case oDead:
				s.dead = true
				return e.st.BVu(0, e.intw)
			case oStop:
				for i, n := range names {
					e.H.loopOut[n] = o.phis[i]
				}
				return e.st.BVu(1, e.intw)
			}
			return e.st.BVu(0, e.intw)
		},
		// vCallerLocal(name) is for contract functions installed with vReplace: it returns a pointer to the
		// address-taken local variable `name` of the function that called the replaced callee (the frame below
		// the contract function), so that a staged proof can state facts about intermediate values of the caller
		"vCallerLocal": func(e *Engine, fr *Frame, s *State, f *ssa.Function, args []Value, pos string) Value {
			name := constStr(args[0], "variable name")
			// frames: ..., caller, contract function (fr); harness helpers called from the contract are skipped
			var caller *Frame
			for i := len(e.frames) - 1; i >= 0; i-- {
				if !e.frames[i].harn {
					caller = e.frames[i]
					break
				}
			}
			if caller == nil {
				panic(unsupported("vCallerLocal: no calling frame at %s", pos))
			}
			for reg, v := range caller.regs {
				if a, ok := reg.(*ssa.Alloc); ok && a.Comment == name {
					return &Iface{Dyn: a.Type(), Val: v}
				}
			}
			panic(unsupported("vCallerLocal: %s has no address-taken local %q (executed so far) at %s", caller.fn.String(), name, pos))
		},
		// vGeneralize(p, n, name): for the obligations created from now on (until vGeneralizeOff) the current
		// values of the n cells p points to are replaced by fresh symbols name0..: a proof of the generalised
		// obligation is a proof of the original one (the fresh symbols range over at least the actual values,
		// being constrained only by hypotheses that were themselves stated about those values)
		"vGeneralize": func(e *Engine, fr *Frame, s *State, f *ssa.Function, args []Value, pos string) Value {
			p := args[0].(*Iface).Val.(*Ptr)
			n := constInt(args[1], "cell count")
			name := constStr(args[2], "name")
			if e.H.gen == nil {
				e.H.gen = map[*Term]*Term{}
			}
			e.H.genSt = e.st
			for k := 0; k < n; k++ {
				t, ok := e.load(s, e.ptrAdd(p, k), leafT, pos, fr).(*Term)
				if !ok || t.IsConst() || t.Op == OSym {
					continue
				}
				if _, dup := e.H.gen[t]; dup {
					continue
				}
				fresh := e.st.Sym(fmt.Sprintf("%s%d", name, k), t.S)
				e.H.gen[t] = fresh
				// later reads of the cell (by the harness) see the fresh symbol directly: conversions of the
				// old value may have been simplified into forms that no longer contain its node
				e.storeRaw(s, e.ptrAdd(p, k), fresh)
			}
			return nil
		},
		// assumptions made for one stage of a staged proof are dropped again with vAssumeReset(vAssumeMark())
		"vAssumeMark": func(e *Engine, fr *Frame, s *State, f *ssa.Function, args []Value, pos string) Value {
			return e.st.BVu(uint64(len(e.H.assumes)), e.intw)
		},
		"vAssumeReset": func(e *Engine, fr *Frame, s *State, f *ssa.Function, args []Value, pos string) Value {
			n := constInt(args[0], "mark")
			if n <= len(e.H.assumes) {
				e.H.assumes = e.H.assumes[:n]
			}
			return nil
		},
		"vGeneralizeOff": func(e *Engine, fr *Frame, s *State, f *ssa.Function, args []Value, pos string) Value {
			e.H.gen = nil
			return nil
		},
		"vLoopOutInt": func(e *Engine, fr *Frame, s *State, f *ssa.Function, args []Value, pos string) Value {
			v, ok := e.H.loopOut[constStr(args[0], "phi name")]
			if !ok {
				panic(unsupported("vLoopOutInt: no such loop variable at %s", pos))
			}
			return v
		},
		"vLoopOutBool": func(e *Engine, fr *Frame, s *State, f *ssa.Function, args []Value, pos string) Value {
			v, ok := e.H.loopOut[constStr(args[0], "phi name")]
			if !ok {
				panic(unsupported("vLoopOutBool: no such loop variable at %s", pos))
			}
			return v
		},
		"vCatch": func(e *Engine, fr *Frame, s *State, f *ssa.Function, args []Value, pos string) Value {
			cl := args[0]
			rec := &catchRec{}
			e.H.catches = append(e.H.catches, rec)
			pc0 := s.pc
			switch c := cl.(type) {
			case *Closure:
				e.callFunction(s, c.Fn, nil, c.Bind)
			case *FuncV:
				e.callFunction(s, c.Fn, nil, nil)
			default:
				panic(unsupported("vCatch argument"))
			}
			e.H.catches = e.H.catches[:len(e.H.catches)-1]
			s.dead = false
			s.pc = pc0
			return e.st.Or(rec.conds...)
		},
		"vUFBool": func(e *Engine, fr *Frame, s *State, f *ssa.Function, args []Value, pos string) Value {
			return e.st.UF(constStr(args[0], "UF name"), BoolSort, e.ufArgs(fr, s, args[1], pos)...)
		},
		"vUF64": func(e *Engine, fr *Frame, s *State, f *ssa.Function, args []Value, pos string) Value {
			return e.st.UF(constStr(args[0], "UF name"), BV(64), e.ufArgs(fr, s, args[1], pos)...)
		},
		"vUF8": func(e *Engine, fr *Frame, s *State, f *ssa.Function, args []Value, pos string) Value {
			return e.st.UF(constStr(args[0], "UF name"), BV(8), e.ufArgs(fr, s, args[1], pos)...)
		},
		"vUFZ": func(e *Engine, fr *Frame, s *State, f *ssa.Function, args []Value, pos string) Value {
			return e.st.UF(constStr(args[0], "UF name"), IntSort, e.ufArgs(fr, s, args[1], pos)...)
		},
		"vUFPt": func(e *Engine, fr *Frame, s *State, f *ssa.Function, args []Value, pos string) Value {
			return e.st.UF(constStr(args[0], "UF name"), BV(64), e.ufArgs(fr, s, args[1], pos)...)
		},
		"vUFSc": func(e *Engine, fr *Frame, s *State, f *ssa.Function, args []Value, pos string) Value {
			return e.st.UF(constStr(args[0], "UF name"), BV(64), e.ufArgs(fr, s, args[1], pos)...)
		},
		"vUFFe": func(e *Engine, fr *Frame, s *State, f *ssa.Function, args []Value, pos string) Value {
			return e.st.UF(constStr(args[0], "UF name"), BV(64), e.ufArgs(fr, s, args[1], pos)...)
		},
		// vUFBytes(name, n, args...) returns a fresh harness-owned n-byte slice holding UF(args) split into bytes (little endian)
		"vUFBytes": func(e *Engine, fr *Frame, s *State, f *ssa.Function, args []Value, pos string) Value {
			n := constInt(args[1], "byte count")
			t := e.st.UF(constStr(args[0], "UF name"), BV(8*n), e.ufArgs(fr, s, args[2], pos)...)
			arr := types.NewArray(types.Typ[types.Uint8], int64(n))
			o := e.allocTyped("uf", ObjHarness, arr)
			o.owner = s
			s.born = append(s.born, o)
			cells := s.cellsW(o)
			for k := 0; k < n; k++ {
				cells[k] = e.st.Extract(t, 8*k+7, 8*k)
			}
			ln := e.st.BVu(uint64(n), e.intw)
			return &SliceV{P: ptrTo(o, 0, e.st.True()), Len: ln, Cap: ln}
		},
		// abstract cell access: vPut(ptr, v) stores an abstract value into cell 0 of *ptr and poisons the rest
		"vPut": func(e *Engine, fr *Frame, s *State, f *ssa.Function, args []Value, pos string) Value {
			p := args[0].(*Iface).Val.(*Ptr)
			v := args[1].(*Iface).Val
			pt := args[0].(*Iface).Dyn.(*types.Pointer).Elem()
			n := e.cellCount(pt)
			e.storeRaw(s, p, v)
			for k := 1; k < n; k++ {
				e.storeRaw(s, e.ptrAdd(p, k), e.st.Sym("poison", USort("Poison")))
			}
			return nil
		},
		"vPutAt": func(e *Engine, fr *Frame, s *State, f *ssa.Function, args []Value, pos string) Value {
			p := args[0].(*Iface).Val.(*Ptr)
			k := constInt(args[1], "cell index")
			v := args[2].(*Iface).Val
			e.storeRaw(s, e.ptrAdd(p, k), v)
			return nil
		},
		"vIsAbstractZ": func(e *Engine, fr *Frame, s *State, f *ssa.Function, args []Value, pos string) Value {
			p := args[0].(*Iface).Val.(*Ptr)
			v := e.load(s, p, leafT, pos, fr)
			t, ok := v.(*Term)
			return e.st.Bool(ok && t.S == IntSort)
		},
		"vGetZ":  getCell(IntSort),
		"vGetPt": getCell(BV(64)),
		"vGetSc": getCell(BV(64)),
		"vGetFe": getCell(BV(64)),
		"vGetZAt": func(e *Engine, fr *Frame, s *State, f *ssa.Function, args []Value, pos string) Value {
			p := args[0].(*Iface).Val.(*Ptr)
			k := constInt(args[1], "cell index")
			v := e.load(s, e.ptrAdd(p, k), leafT, pos, fr)
			t, ok := v.(*Term)
			if !ok || t.S != IntSort {
				panic(unsupported("vGetZAt: cell does not hold an integer at %s", pos))
			}
			return t
		},
		"vLEult": func(e *Engine, fr *Frame, s *State, f *ssa.Function, args []Value, pos string) Value {
			ts := e.valueTerms(fr, s, args[0], pos)
			return e.st.BVUlt(ts[0], e.st.BVConst(bigFromString(constStr(args[1], "literal")), ts[0].S.W))
		},
		"vLEeq": func(e *Engine, fr *Frame, s *State, f *ssa.Function, args []Value, pos string) Value {
			ts := e.valueTerms(fr, s, args[0], pos)
			return e.st.Eq(ts[0], e.st.BVConst(bigFromString(constStr(args[1], "literal")), ts[0].S.W))
		},
		"vLEultB": func(e *Engine, fr *Frame, s *State, f *ssa.Function, args []Value, pos string) Value {
			a := e.valueTerms(fr, s, args[0], pos)
			b := e.valueTerms(fr, s, args[1], pos)
			return e.st.BVUlt(a[0], b[0])
		},
		// math integers
		"vZc": func(e *Engine, fr *Frame, s *State, f *ssa.Function, args []Value, pos string) Value {
			return e.st.IntConst(bigFromString(constStr(args[0], "integer literal")))
		},
		"vZi": func(e *Engine, fr *Frame, s *State, f *ssa.Function, args []Value, pos string) Value {
			t := args[0].(*Term)
			if t.IsConst() {
				return e.st.IntConst(toSigned(t.Val, t.S.W))
			}
			// signed int -> Int
			w := t.S.W
			neg := e.st.BVSlt(t, e.st.BVu(0, w))
			return e.st.Ite(neg, e.st.ISub(e.st.BV2Nat(t), e.st.IntConst(new2pow(w))), e.st.BV2Nat(t))
		},
		"vZu": func(e *Engine, fr *Frame, s *State, f *ssa.Function, args []Value, pos string) Value {
			return e.st.BV2Nat(args[0].(*Term))
		},
		"vZle": func(e *Engine, fr *Frame, s *State, f *ssa.Function, args []Value, pos string) Value {
			// little-endian value of a byte slice
			ts := e.valueTerms(fr, s, args[0], pos)
			if len(ts) == 0 {
				return e.st.Inti(0)
			}
			return e.st.BV2Nat(ts[0])
		},
		"vInversePair": func(e *Engine, fr *Frame, s *State, f *ssa.Function, args []Value, pos string) Value {
			z, w := args[0].(*Term), args[1].(*Term)
			if z.Op != OSym || w.Op != OSym {
				panic(unsupported("vInversePair needs two integer symbols at %s", pos))
			}
			m := args[2].(*Term)
			if !m.IsConst() {
				panic(unsupported("vInversePair modulus must be constant"))
			}
			e.H.invMod = m.Val
			e.H.invPairs = append(e.H.invPairs, [2]*Term{z, w})
			def := e.st.Implies(s.pc, e.st.Eq(e.st.IMod(e.st.IMul(z, w), m), e.st.Inti(1)))
			e.st.invDefs[def] = true
			e.H.assumes = append(e.H.assumes, def)
			return nil
		},
		"vZbytes": func(e *Engine, fr *Frame, s *State, f *ssa.Function, args []Value, pos string) Value {
			z := args[0].(*Term)
			n := constInt(args[1], "byte count")
			bv := e.st.Int2BV(z, 8*n)
			arr := types.NewArray(types.Typ[types.Uint8], int64(n))
			o := e.allocTyped("zbytes", ObjHarness, arr)
			o.owner = s
			s.born = append(s.born, o)
			cells := s.cellsW(o)
			for k := 0; k < n; k++ {
				cells[k] = e.st.Extract(bv, 8*k+7, 8*k)
			}
			ln := e.st.BVu(uint64(n), e.intw)
			return &SliceV{P: ptrTo(o, 0, e.st.True()), Len: ln, Cap: ln}
		},
		// a fresh integer symbol whose name does not depend on harness state (harness counters become symbolic
		// when the branches of a fork advance them differently)
		"vZfreshAuto": func(e *Engine, fr *Frame, s *State, f *ssa.Function, args []Value, pos string) Value {
			return e.st.Sym(fmt.Sprintf("%s!%d", constStr(args[0], "prefix"), e.H.nextSym()), IntSort)
		},
		"vZfresh": func(e *Engine, fr *Frame, s *State, f *ssa.Function, args []Value, pos string) Value {
			return e.st.Sym(constStr(args[0], "name"), IntSort)
		},
		"vZ.Add": func(e *Engine, fr *Frame, s *State, f *ssa.Function, args []Value, pos string) Value {
			return e.st.IAdd(args[0].(*Term), args[1].(*Term))
		},
		"vZ.Sub": func(e *Engine, fr *Frame, s *State, f *ssa.Function, args []Value, pos string) Value {
			return e.st.ISub(args[0].(*Term), args[1].(*Term))
		},
		"vZ.Mul": func(e *Engine, fr *Frame, s *State, f *ssa.Function, args []Value, pos string) Value {
			return e.st.IMul(args[0].(*Term), args[1].(*Term))
		},
		"vZ.Div": func(e *Engine, fr *Frame, s *State, f *ssa.Function, args []Value, pos string) Value {
			return e.st.IDiv(args[0].(*Term), args[1].(*Term))
		},
		"vZ.Mod": func(e *Engine, fr *Frame, s *State, f *ssa.Function, args []Value, pos string) Value {
			return e.st.IMod(args[0].(*Term), args[1].(*Term))
		},
		"vZ.Neg": func(e *Engine, fr *Frame, s *State, f *ssa.Function, args []Value, pos string) Value {
			return e.st.INeg(args[0].(*Term))
		},
		"vZ.Shl": func(e *Engine, fr *Frame, s *State, f *ssa.Function, args []Value, pos string) Value {
			k := constInt(args[1], "shift")
			return e.st.IMul(args[0].(*Term), e.st.IntConst(new2pow(k)))
		},
		"vZ.Eq": func(e *Engine, fr *Frame, s *State, f *ssa.Function, args []Value, pos string) Value {
			return e.st.Eq(args[0].(*Term), args[1].(*Term))
		},
		"vZ.Lt": func(e *Engine, fr *Frame, s *State, f *ssa.Function, args []Value, pos string) Value {
			return e.st.ILt(args[0].(*Term), args[1].(*Term))
		},
		"vZ.Le": func(e *Engine, fr *Frame, s *State, f *ssa.Function, args []Value, pos string) Value {
			return e.st.ILe(args[0].(*Term), args[1].(*Term))
		},
		"vZ.IsConst": func(e *Engine, fr *Frame, s *State, f *ssa.Function, args []Value, pos string) Value {
			return e.st.Bool(args[0].(*Term).IsConst())
		},
		"vZasAtom": func(e *Engine, fr *Frame, s *State, f *ssa.Function, args []Value, pos string) Value {
			// normalises an integer term; if it is a single integer symbol (coefficient 1, no constant) returns it
			t := args[0].(*Term)
			if t.Op == OSym {
				return Tuple{t, e.st.True()}
			}
			x := &b2i{st: e.st, ub: map[*Term]*big.Int{}, cache: map[int]*liftRes{}, vars: map[*Term]*Term{}, ok: true,
				sideK: map[int]bool{}, monos: map[int]*Term{}, aiv: map[int][2]*big.Int{}, bcache: map[int]*Term{}, known: map[int][2]*big.Int{}, rhos: map[string]*Term{}, factors: map[int][]*Term{}}
			l := x.liftInt(t)
			if x.ok && l.c.Sign() == 0 && len(l.terms) == 1 {
				for _, lt := range l.terms {
					if lt.k.Cmp(bigOne) == 0 && lt.atom.Op == OSym {
						return Tuple{lt.atom, e.st.True()}
					}
				}
			}
			return Tuple{t, e.st.False()}
		},
		"vZsame": func(e *Engine, fr *Frame, s *State, f *ssa.Function, args []Value, pos string) Value {
			// syntactic identity of two integer terms (a concrete answer: used for stamps, never for arithmetic facts)
			a, ok1 := args[0].(*Term)
			b, ok2 := args[1].(*Term)
			return e.st.Bool(ok1 && ok2 && a == b)
		},
		"vZ.IsSym": func(e *Engine, fr *Frame, s *State, f *ssa.Function, args []Value, pos string) Value {
			return e.st.Bool(args[0].(*Term).Op == OSym)
		},
		"vZite": func(e *Engine, fr *Frame, s *State, f *ssa.Function, args []Value, pos string) Value {
			return e.st.Ite(args[0].(*Term), args[1].(*Term), args[2].(*Term))
		},
		"vPtEq": func(e *Engine, fr *Frame, s *State, f *ssa.Function, args []Value, pos string) Value {
			return e.st.Eq(args[0].(*Term), args[1].(*Term))
		},
		"vScEq": func(e *Engine, fr *Frame, s *State, f *ssa.Function, args []Value, pos string) Value {
			return e.st.Eq(args[0].(*Term), args[1].(*Term))
		},
		// sequences
		"vSeqOf": func(e *Engine, fr *Frame, s *State, f *ssa.Function, args []Value, pos string) Value {
			return e.seqOfSlice(fr, s, args[0], pos)
		},
		"vSeqStr": func(e *Engine, fr *Frame, s *State, f *ssa.Function, args []Value, pos string) Value {
			sv := args[0].(*StrV)
			if sv.Blob != nil {
				return sv.Blob.Seq
			}
			parts := []*Term{}
			for _, b := range sv.Bytes {
				parts = append(parts, e.st.SeqUnit(b))
			}
			return e.st.SeqConcat(parts...)
		},
		"vSeqByte": func(e *Engine, fr *Frame, s *State, f *ssa.Function, args []Value, pos string) Value {
			return e.st.SeqUnit(args[0].(*Term))
		},
		"vSeq.Cat": func(e *Engine, fr *Frame, s *State, f *ssa.Function, args []Value, pos string) Value {
			return e.st.SeqConcat(args[0].(*Term), args[1].(*Term))
		},
		"vSeq.Eq": func(e *Engine, fr *Frame, s *State, f *ssa.Function, args []Value, pos string) Value {
			return e.st.Eq(args[0].(*Term), args[1].(*Term))
		},
		"vSeq.Len": func(e *Engine, fr *Frame, s *State, f *ssa.Function, args []Value, pos string) Value {
			return e.st.SeqLen(args[0].(*Term))
		},
		"vLinkLen": func(e *Engine, fr *Frame, s *State, f *ssa.Function, args []Value, pos string) Value {
			sl := args[0].(*SliceV)
			b := sl.P.Alts[0].Obj.Blob
			e.H.assumes = append(e.H.assumes, e.st.Eq(e.st.SeqLen(b.Seq), e.st.BV2Nat(b.Len)))
			return nil
		},
		"vHash": func(e *Engine, fr *Frame, s *State, f *ssa.Function, args []Value, pos string) Value {
			// returns the 64 digest bytes of H(seq) as a harness-owned slice
			d := e.st.UF("H", BV(512), args[0].(*Term))
			arr := types.NewArray(types.Typ[types.Uint8], 64)
			o := e.allocTyped("vHash", ObjHarness, arr)
			o.owner = s
			s.born = append(s.born, o)
			cells := s.cellsW(o)
			for k := 0; k < 64; k++ {
				cells[k] = e.st.Extract(d, 511-8*k, 504-8*k)
			}
			ln := e.st.BVu(64, e.intw)
			return &SliceV{P: ptrTo(o, 0, e.st.True()), Len: ln, Cap: ln}
		},
		"vHashState": func(e *Engine, fr *Frame, s *State, f *ssa.Function, args []Value, pos string) Value {
			// the sequence written so far to a hash.Hash stub
			h := args[0].(*Iface)
			return e.load(s, h.Val.(*Ptr), seqT, pos, fr)
		},
		// readers
		"vReader": func(e *Engine, fr *Frame, s *State, f *ssa.Function, args []Value, pos string) Value {
			return &Iface{Dyn: e.stubType("reader:" + constStr(args[0], "name"))}
		},
		"vReaderCalls": func(e *Engine, fr *Frame, s *State, f *ssa.Function, args []Value, pos string) Value {
			return e.st.BVu(uint64(len(e.H.readerCalls)), e.intw)
		},
		"vReaderCallSize": func(e *Engine, fr *Frame, s *State, f *ssa.Function, args []Value, pos string) Value {
			k := constInt(args[0], "call index")
			if k >= len(e.H.readerCalls) {
				return e.st.BVi(-1, e.intw)
			}
			return e.st.BVu(uint64(e.H.readerCalls[k].n), e.intw)
		},
		"vReaderCallIsReadFull": func(e *Engine, fr *Frame, s *State, f *ssa.Function, args []Value, pos string) Value {
			k := constInt(args[0], "call index")
			if k >= len(e.H.readerCalls) {
				return e.st.False()
			}
			return e.st.Bool(!e.H.readerCalls[k].direct)
		},
		"vReaderFailed": func(e *Engine, fr *Frame, s *State, f *ssa.Function, args []Value, pos string) Value {
			k := constInt(args[0], "call index")
			return e.st.Sym(fmt.Sprintf("rd%d_fail", k+1), BoolSort)
		},
		"vReaderBytes": func(e *Engine, fr *Frame, s *State, f *ssa.Function, args []Value, pos string) Value {
			k := constInt(args[0], "call index")
			n := e.H.readerCalls[k].n
			arr := types.NewArray(types.Typ[types.Uint8], int64(n))
			o := e.allocTyped("rdbytes", ObjHarness, arr)
			o.owner = s
			s.born = append(s.born, o)
			cells := s.cellsW(o)
			for j := 0; j < n; j++ {
				cells[j] = e.st.Sym(fmt.Sprintf("rd%d_b%d", k+1, j), BV(8))
			}
			ln := e.st.BVu(uint64(n), e.intw)
			return &SliceV{P: ptrTo(o, 0, e.st.True()), Len: ln, Cap: ln}
		},
		"vReaderBytesOfCall": func(e *Engine, fr *Frame, s *State, f *ssa.Function, args []Value, pos string) Value {
			// the bytes the k-th reader call (counted from 0) will deliver, named before the call happens
			k := constInt(args[0], "call index")
			n := constInt(args[1], "byte count")
			arr := types.NewArray(types.Typ[types.Uint8], int64(n))
			o := e.allocTyped("rdbytes", ObjHarness, arr)
			o.owner = s
			s.born = append(s.born, o)
			cells := s.cellsW(o)
			for j := 0; j < n; j++ {
				cells[j] = e.st.Sym(fmt.Sprintf("rd%d_b%d", k+1, j), BV(8))
			}
			ln := e.st.BVu(uint64(n), e.intw)
			return &SliceV{P: ptrTo(o, 0, e.st.True()), Len: ln, Cap: ln}
		},
		"vForeignIface": func(e *Engine, fr *Frame, s *State, f *ssa.Function, args []Value, pos string) Value {
			return &Iface{Dyn: e.stubType("foreign:" + constStr(args[0], "name"))}
		},
		"vIsNilErr": func(e *Engine, fr *Frame, s *State, f *ssa.Function, args []Value, pos string) Value {
			x, _ := args[0].(*Iface)
			if x == nil {
				return e.st.True()
			}
			return e.ifaceNil(x)
		},
		// aliasing: do two slices share an object?
		"vSameObject": func(e *Engine, fr *Frame, s *State, f *ssa.Function, args []Value, pos string) Value {
			a, b := args[0].(*SliceV), args[1].(*SliceV)
			r := e.st.False()
			for _, x := range a.P.Alts {
				for _, y := range b.P.Alts {
					if x.Obj != nil && x.Obj == y.Obj {
						r = e.st.Or(r, e.st.And(x.G, y.G))
					}
				}
			}
			return r
		},
		"vStoresToCaller": func(e *Engine, fr *Frame, s *State, f *ssa.Function, args []Value, pos string) Value {
			// disjunction of the conditions of all recorded stores to caller/global objects so far
			r := e.st.False()
			for _, ev := range e.H.stores {
				r = e.st.Or(r, ev.Cond)
			}
			return r
		},
		"vIteU64": func(e *Engine, fr *Frame, s *State, f *ssa.Function, args []Value, pos string) Value {
			return e.st.Ite(args[0].(*Term), args[1].(*Term), args[2].(*Term))
		},
	}
}

func new2pow(k int) *big.Int { return new(big.Int).Lsh(bigOne, uint(k)) }

func getCell(want Sort) hHandler {
	return func(e *Engine, fr *Frame, s *State, f *ssa.Function, args []Value, pos string) Value {
		p := args[0].(*Iface).Val.(*Ptr)
		v := e.load(s, p, leafT, pos, fr)
		t, ok := v.(*Term)
		if !ok || t.S != want {
			e.H.abstractMisuse = append(e.H.abstractMisuse, fmt.Sprintf("%s: cell holds %v, expected abstract %v", pos, describe(v), want))
			return e.st.Sym(fmt.Sprintf("undef_%s_%d", want.Name, e.H.nextSym()), want)
		}
		return t
	}
}

func describe(v Value) string {
	if t, ok := v.(*Term); ok {
		return t.S.String()
	}
	return fmt.Sprintf("%T", v)
}

func (h *HarnessRun) nextSym() int { h.symN++; return h.symN }

func freshInt(w int) hHandler {
	return func(e *Engine, fr *Frame, s *State, f *ssa.Function, args []Value, pos string) Value {
		ww := w
		if ww == 0 {
			ww = e.intw
		}
		nm := constStr(args[0], "name")
		e.H.inputs = append(e.H.inputs, inputRec{Name: nm, Kind: fmt.Sprintf("u%d", ww)})
		return e.st.Sym(nm, BV(ww))
	}
}

func sortedKeys(m map[string]bool) []string {
	var out []string
	for k := range m {
		out = append(out, k)
	}
	sort.Strings(out)
	return out
}

var _ = strings.Join
