package main

// Hash-consed term DAG with constant folding, printed as SMT-LIB2.

import (
	"fmt"
	"math/big"
	"sort"
	"strings"
)

type SortKind int

const (
	SBool SortKind = iota
	SBV
	SInt
	SSeq   // (Seq (_ BitVec 8))
	SUSort // uninterpreted sort, name in Sort.Name
)

type Sort struct {
	K    SortKind
	W    int    // SBV width
	Name string // SUSort
}

func (s Sort) String() string {
	switch s.K {
	case SBool:
		return "Bool"
	case SBV:
		return fmt.Sprintf("(_ BitVec %d)", s.W)
	case SInt:
		return "Int"
	case SSeq:
		return "(Seq (_ BitVec 8))"
	case SUSort:
		return s.Name
	}
	return "?"
}

var (
	BoolSort = Sort{K: SBool}
	IntSort  = Sort{K: SInt}
	SeqSort  = Sort{K: SSeq}
)

func BV(w int) Sort        { return Sort{K: SBV, W: w} }
func USort(n string) Sort  { return Sort{K: SUSort, Name: n} }
func (s Sort) IsBV() bool  { return s.K == SBV }
func (s Sort) IsInt() bool { return s.K == SInt }

type Op int

const (
	OConst Op = iota // BV/Int/Bool constant (Val)
	OSym             // free symbol (Name)
	OUF              // uninterpreted function application (Name, Args)
	// bool
	ONot
	OAnd
	OOr
	OImplies
	OEq
	OIte
	// bv
	OBVAdd
	OBVSub
	OBVMul
	OBVUDiv
	OBVURem
	OBVSDiv
	OBVSRem
	OBVAnd
	OBVOr
	OBVXor
	OBVNot
	OBVNeg
	OBVShl
	OBVLshr
	OBVAshr
	OBVUlt
	OBVUle
	OBVSlt
	OBVSle
	OConcat
	OExtract // P0=hi, P1=lo
	OZext    // P0 = extra bits
	OSext    // P0 = extra bits
	// int
	OIAdd
	OISub
	OIMul
	OIDiv
	OIMod
	OINeg
	OILe
	OILt
	OBV2Nat
	OInt2BV // P0 = width
	// seq
	OSeqUnit
	OSeqConcat
	OSeqLen
	OSeqEmpty
)

var opNames = map[Op]string{
	ONot: "not", OAnd: "and", OOr: "or", OImplies: "=>", OEq: "=", OIte: "ite",
	OBVAdd: "bvadd", OBVSub: "bvsub", OBVMul: "bvmul", OBVUDiv: "bvudiv", OBVURem: "bvurem",
	OBVSDiv: "bvsdiv", OBVSRem: "bvsrem", OBVAnd: "bvand", OBVOr: "bvor", OBVXor: "bvxor",
	OBVNot: "bvnot", OBVNeg: "bvneg", OBVShl: "bvshl", OBVLshr: "bvlshr", OBVAshr: "bvashr",
	OBVUlt: "bvult", OBVUle: "bvule", OBVSlt: "bvslt", OBVSle: "bvsle", OConcat: "concat",
	OIAdd: "+", OISub: "-", OIMul: "*", OIDiv: "div", OIMod: "mod", OINeg: "-", OILe: "<=", OILt: "<",
	OBV2Nat: "bv2nat", OSeqUnit: "seq.unit", OSeqConcat: "seq.++", OSeqLen: "seq.len",
}

type Term struct {
	ID   int
	Op   Op
	S    Sort
	Args []*Term
	Val  *big.Int // OConst (Bool: 0/1)
	Name string   // OSym, OUF
	P0   int
	P1   int
	Sec  bool // mentions a secret symbol (taint)
	syms map[*Term]struct{}
}

func (t *Term) IsConst() bool { return t.Op == OConst }
func (t *Term) IsTrue() bool  { return t.Op == OConst && t.S.K == SBool && t.Val.Sign() != 0 }
func (t *Term) IsFalse() bool { return t.Op == OConst && t.S.K == SBool && t.Val.Sign() == 0 }

// Store is the hash-consing table.  One per engine run.
type Store struct {
	tab     map[string]*Term
	n       int
	ufs     map[string]ufDecl
	usorts  map[string]bool
	secrets map[string]bool
	noLift  bool
	invPairs   [][2]*Term // declared inverse pairs (Int symbols), see bv2int.go
	invModulus *big.Int
	invDefs    map[*Term]bool
}

type ufDecl struct {
	args []Sort
	res  Sort
}

func NewStore() *Store {
	return &Store{invDefs: map[*Term]bool{}, tab: map[string]*Term{}, ufs: map[string]ufDecl{}, usorts: map[string]bool{}, secrets: map[string]bool{}}
}

var bigOne = big.NewInt(1)

func mask(w int) *big.Int {
	m := new(big.Int).Lsh(bigOne, uint(w))
	return m.Sub(m, bigOne)
}

func norm(v *big.Int, w int) *big.Int {
	r := new(big.Int).And(v, mask(w))
	return r
}

func toSigned(v *big.Int, w int) *big.Int {
	if v.Bit(w-1) == 1 {
		return new(big.Int).Sub(v, new(big.Int).Lsh(bigOne, uint(w)))
	}
	return new(big.Int).Set(v)
}

func (st *Store) mk(op Op, s Sort, args []*Term, val *big.Int, name string, p0, p1 int) *Term {
	var sb strings.Builder
	fmt.Fprintf(&sb, "%d|%d|%d|%s|%d|%d|%s|", op, s.K, s.W, s.Name, p0, p1, name)
	if val != nil {
		sb.WriteString(val.Text(16))
	}
	for _, a := range args {
		fmt.Fprintf(&sb, ",%d", a.ID)
	}
	k := sb.String()
	if t, ok := st.tab[k]; ok {
		return t
	}
	st.n++
	t := &Term{ID: st.n, Op: op, S: s, Args: args, Val: val, Name: name, P0: p0, P1: p1}
	for _, a := range args {
		if a.Sec {
			t.Sec = true
		}
	}
	if op == OSym && st.secrets[name] {
		t.Sec = true
	}
	st.tab[k] = t
	return t
}

// substitute replaces every occurrence (as a DAG node) of a key of m by its image; the rest of the term is
// rebuilt structurally (no simplification).
func (st *Store) substitute(t *Term, m map[*Term]*Term, cache map[*Term]*Term) *Term {
	if r, ok := m[t]; ok {
		return r
	}
	if len(t.Args) == 0 {
		return t
	}
	if r, ok := cache[t]; ok {
		return r
	}
	changed := false
	args := make([]*Term, len(t.Args))
	for i, a := range t.Args {
		args[i] = st.substitute(a, m, cache)
		if args[i] != a {
			changed = true
		}
	}
	r := t
	if changed {
		r = st.mk(t.Op, t.S, args, t.Val, t.Name, t.P0, t.P1)
	}
	cache[t] = r
	return r
}

// ---- constructors ----

func (st *Store) Bool(b bool) *Term {
	v := big.NewInt(0)
	if b {
		v = big.NewInt(1)
	}
	return st.mk(OConst, BoolSort, nil, v, "", 0, 0)
}
func (st *Store) True() *Term  { return st.Bool(true) }
func (st *Store) False() *Term { return st.Bool(false) }

func (st *Store) BVConst(v *big.Int, w int) *Term {
	return st.mk(OConst, BV(w), nil, norm(v, w), "", 0, 0)
}
func (st *Store) BVu(v uint64, w int) *Term {
	return st.BVConst(new(big.Int).SetUint64(v), w)
}
func (st *Store) BVi(v int64, w int) *Term {
	return st.BVConst(big.NewInt(v), w)
}
func (st *Store) IntConst(v *big.Int) *Term {
	return st.mk(OConst, IntSort, nil, new(big.Int).Set(v), "", 0, 0)
}
func (st *Store) Inti(v int64) *Term { return st.IntConst(big.NewInt(v)) }

func (st *Store) Sym(name string, s Sort) *Term {
	if s.K == SUSort {
		st.usorts[s.Name] = true
	}
	return st.mk(OSym, s, nil, nil, name, 0, 0)
}

func (st *Store) SecretSym(name string, s Sort) *Term {
	st.secrets[name] = true
	return st.Sym(name, s)
}

func (st *Store) UF(name string, res Sort, args ...*Term) *Term {
	d, ok := st.ufs[name]
	as := make([]Sort, len(args))
	for i, a := range args {
		as[i] = a.S
		if a.S.K == SUSort {
			st.usorts[a.S.Name] = true
		}
	}
	if res.K == SUSort {
		st.usorts[res.Name] = true
	}
	if ok {
		if len(d.args) != len(as) || d.res != res {
			panic(fmt.Sprintf("UF %s used with inconsistent signature", name))
		}
		for i := range as {
			if as[i] != d.args[i] {
				panic(fmt.Sprintf("UF %s used with inconsistent arg sort %d: %v vs %v", name, i, as[i], d.args[i]))
			}
		}
	} else {
		st.ufs[name] = ufDecl{args: as, res: res}
	}
	if len(args) == 0 {
		return st.Sym(name, res)
	}
	return st.mk(OUF, res, args, nil, name, 0, 0)
}

func (st *Store) Not(a *Term) *Term {
	if a.IsConst() {
		return st.Bool(a.Val.Sign() == 0)
	}
	if a.Op == ONot {
		return a.Args[0]
	}
	return st.mk(ONot, BoolSort, []*Term{a}, nil, "", 0, 0)
}

func (st *Store) And(as ...*Term) *Term {
	var out []*Term
	seen := map[int]bool{}
	for _, a := range as {
		if a.IsFalse() {
			return a
		}
		if a.IsTrue() {
			continue
		}
		if a.Op == OAnd {
			for _, b := range a.Args {
				if !seen[b.ID] {
					seen[b.ID] = true
					out = append(out, b)
				}
			}
			continue
		}
		if !seen[a.ID] {
			seen[a.ID] = true
			out = append(out, a)
		}
	}
	for _, a := range out {
		if a.Op == ONot && seen[a.Args[0].ID] {
			return st.False()
		}
	}
	if len(out) == 0 {
		return st.True()
	}
	if len(out) == 1 {
		return out[0]
	}
	return st.mk(OAnd, BoolSort, out, nil, "", 0, 0)
}

func (st *Store) Or(as ...*Term) *Term {
	var out []*Term
	seen := map[int]bool{}
	for _, a := range as {
		if a.IsTrue() {
			return a
		}
		if a.IsFalse() {
			continue
		}
		if a.Op == OOr {
			for _, b := range a.Args {
				if !seen[b.ID] {
					seen[b.ID] = true
					out = append(out, b)
				}
			}
			continue
		}
		if !seen[a.ID] {
			seen[a.ID] = true
			out = append(out, a)
		}
	}
	for _, a := range out {
		if a.Op == ONot && seen[a.Args[0].ID] {
			return st.True()
		}
	}
	if len(out) == 0 {
		return st.False()
	}
	if len(out) == 1 {
		return out[0]
	}
	return st.mk(OOr, BoolSort, out, nil, "", 0, 0)
}

func (st *Store) Implies(a, b *Term) *Term { return st.Or(st.Not(a), b) }

func (st *Store) Eq(a, b *Term) *Term {
	if a.S != b.S {
		panic(fmt.Sprintf("Eq sort mismatch %v vs %v", a.S, b.S))
	}
	if a == b {
		return st.True()
	}
	if a.IsConst() && b.IsConst() {
		return st.Bool(a.Val.Cmp(b.Val) == 0)
	}
	if a.S.K == SBool {
		if a.IsConst() {
			a, b = b, a
		}
		if b.IsTrue() {
			return a
		}
		if b.IsFalse() {
			return st.Not(a)
		}
	}
	// eq(ite(c,k1,k2), k) with constants
	if !st.noLift {
		if a.IsConst() {
			a, b = b, a
		}
		if b.IsConst() && a.Op == OIte && iteConstTree(a) {
			return st.Ite(a.Args[0], st.Eq(a.Args[1], b), st.Eq(a.Args[2], b))
		}
	}
	if a.ID > b.ID {
		a, b = b, a
	}
	return st.mk(OEq, BoolSort, []*Term{a, b}, nil, "", 0, 0)
}

// iteConstTree reports whether t is a (small) ite tree whose leaves are constants.
func iteConstTree(t *Term) bool {
	n := 0
	var rec func(t *Term) bool
	rec = func(t *Term) bool {
		n++
		if n > 64 {
			return false
		}
		if t.IsConst() {
			return true
		}
		if t.Op == OIte {
			return rec(t.Args[1]) && rec(t.Args[2])
		}
		return false
	}
	return rec(t)
}

func (st *Store) Ite(c, a, b *Term) *Term {
	if a.S != b.S {
		panic(fmt.Sprintf("Ite sort mismatch %v vs %v", a.S, b.S))
	}
	if c.IsTrue() {
		return a
	}
	if c.IsFalse() {
		return b
	}
	if a == b {
		return a
	}
	if a.S.K == SBool {
		if a.IsTrue() && b.IsFalse() {
			return c
		}
		if a.IsFalse() && b.IsTrue() {
			return st.Not(c)
		}
		if a.IsTrue() {
			return st.Or(c, b)
		}
		if a.IsFalse() {
			return st.And(st.Not(c), b)
		}
		if b.IsTrue() {
			return st.Or(st.Not(c), a)
		}
		if b.IsFalse() {
			return st.And(c, a)
		}
	}
	if c.Op == ONot {
		return st.Ite(c.Args[0], b, a)
	}
	// ite(c, ite(c, x, y), z) = ite(c, x, z)
	if a.Op == OIte && a.Args[0] == c {
		a = a.Args[1]
	}
	if b.Op == OIte && b.Args[0] == c {
		b = b.Args[2]
	}
	if a == b {
		return a
	}
	return st.mk(OIte, a.S, []*Term{c, a, b}, nil, "", 0, 0)
}

// liftIte applies f through a constant-leaf ite tree.
func (st *Store) liftIte(t *Term, f func(*Term) *Term) *Term {
	if t.Op == OIte {
		return st.Ite(t.Args[0], st.liftIte(t.Args[1], f), st.liftIte(t.Args[2], f))
	}
	return f(t)
}

func (st *Store) bvBin(op Op, a, b *Term) *Term {
	if a.S != b.S || a.S.K != SBV {
		panic(fmt.Sprintf("bvBin %s sort mismatch %v vs %v", opNames[op], a.S, b.S))
	}
	w := a.S.W
	if a.IsConst() && b.IsConst() {
		x, y := a.Val, b.Val
		r := new(big.Int)
		switch op {
		case OBVAdd:
			r.Add(x, y)
		case OBVSub:
			r.Sub(x, y)
		case OBVMul:
			r.Mul(x, y)
		case OBVUDiv:
			if y.Sign() == 0 {
				r = mask(w)
			} else {
				r.Div(x, y)
			}
		case OBVURem:
			if y.Sign() == 0 {
				r.Set(x)
			} else {
				r.Mod(x, y)
			}
		case OBVSDiv:
			sx, sy := toSigned(x, w), toSigned(y, w)
			if sy.Sign() == 0 {
				if sx.Sign() < 0 {
					r.SetInt64(1)
				} else {
					r = mask(w)
				}
			} else {
				r.Quo(sx, sy)
			}
		case OBVSRem:
			sx, sy := toSigned(x, w), toSigned(y, w)
			if sy.Sign() == 0 {
				r.Set(sx)
			} else {
				r.Rem(sx, sy)
			}
		case OBVAnd:
			r.And(x, y)
		case OBVOr:
			r.Or(x, y)
		case OBVXor:
			r.Xor(x, y)
		case OBVShl:
			if y.Cmp(big.NewInt(int64(w))) >= 0 {
				r.SetInt64(0)
			} else {
				r.Lsh(x, uint(y.Int64()))
			}
		case OBVLshr:
			if y.Cmp(big.NewInt(int64(w))) >= 0 {
				r.SetInt64(0)
			} else {
				r.Rsh(x, uint(y.Int64()))
			}
		case OBVAshr:
			sx := toSigned(x, w)
			sh := uint(w)
			if y.Cmp(big.NewInt(int64(w))) < 0 {
				sh = uint(y.Int64())
			}
			r.Rsh(sx, sh)
		default:
			panic("bvBin const op")
		}
		return st.BVConst(r, w)
	}
	// lift over constant ite trees when other operand is const
	if !st.noLift {
		if b.IsConst() && a.Op == OIte && iteConstTree(a) {
			return st.liftIte(a, func(x *Term) *Term { return st.bvBin(op, x, b) })
		}
		if a.IsConst() && b.Op == OIte && iteConstTree(b) {
			return st.liftIte(b, func(x *Term) *Term { return st.bvBin(op, a, x) })
		}
	}
	isZero := func(t *Term) bool { return t.IsConst() && t.Val.Sign() == 0 }
	isOnes := func(t *Term) bool { return t.IsConst() && t.Val.Cmp(mask(w)) == 0 }
	switch op {
	case OBVAdd, OBVOr, OBVXor:
		if op == OBVXor {
			// xor(xor(x, c1), c2) = xor(x, c1 ^ c2)
			if b.IsConst() && a.Op == OBVXor && (a.Args[0].IsConst() || a.Args[1].IsConst()) {
				c1, x := a.Args[0], a.Args[1]
				if !c1.IsConst() {
					c1, x = x, c1
				}
				return st.bvBin(OBVXor, x, st.BVConst(new(big.Int).Xor(c1.Val, b.Val), w))
			}
			if a.IsConst() && b.Op == OBVXor && (b.Args[0].IsConst() || b.Args[1].IsConst()) {
				return st.bvBin(OBVXor, b, a)
			}
		}
		if isZero(a) {
			return b
		}
		if isZero(b) {
			return a
		}
		if op == OBVXor && a == b {
			return st.BVu(0, w)
		}
		if op == OBVOr && a == b {
			return a
		}
		if op == OBVOr && (isOnes(a) || isOnes(b)) {
			return st.BVConst(mask(w), w)
		}
	case OBVSub:
		if isZero(b) {
			return a
		}
		if a == b {
			return st.BVu(0, w)
		}
	case OBVMul:
		if isZero(a) || isZero(b) {
			return st.BVu(0, w)
		}
		if a.IsConst() && a.Val.Cmp(bigOne) == 0 {
			return b
		}
		if b.IsConst() && b.Val.Cmp(bigOne) == 0 {
			return a
		}
	case OBVAnd:
		if isZero(a) || isZero(b) {
			return st.BVu(0, w)
		}
		if isOnes(a) {
			return b
		}
		if isOnes(b) {
			return a
		}
		if a == b {
			return a
		}
		// and(zext(y), c): only the low bits of c matter
		if a.Op == OZext && b.IsConst() {
			iw := a.Args[0].S.W
			return st.Zext(st.bvBin(OBVAnd, a.Args[0], st.BVConst(b.Val, iw)), w-iw)
		}
		if b.Op == OZext && a.IsConst() {
			iw := b.Args[0].S.W
			return st.Zext(st.bvBin(OBVAnd, b.Args[0], st.BVConst(a.Val, iw)), w-iw)
		}
		// and with low mask 2^k-1 -> zext(extract)
		if m := lowMaskBits(a); m > 0 && m < w {
			return st.Zext(st.Extract(b, m-1, 0), w-m)
		}
		if m := lowMaskBits(b); m > 0 && m < w {
			return st.Zext(st.Extract(a, m-1, 0), w-m)
		}
	case OBVSDiv:
		// signed division by 2^k (rounding toward zero) as bias + arithmetic shift: far cheaper to bit-blast
		if b.IsConst() && b.Val.Sign() > 0 && b.Val.BitLen() < w {
			if k := int(b.Val.TrailingZeroBits()); k >= 1 && b.Val.BitLen()-1 == k {
				sign := st.bvBin(OBVAshr, a, st.BVu(uint64(w-1), w))
				bias := st.bvBin(OBVLshr, sign, st.BVu(uint64(w-k), w))
				return st.bvBin(OBVAshr, st.bvBin(OBVAdd, a, bias), st.BVu(uint64(k), w))
			}
		}
		if b.IsConst() && b.Val.Cmp(bigOne) == 0 {
			return a
		}
	case OBVUDiv:
		if b.IsConst() && b.Val.Sign() > 0 {
			if k := int(b.Val.TrailingZeroBits()); b.Val.BitLen()-1 == k {
				return st.bvBin(OBVLshr, a, st.BVu(uint64(k), w))
			}
		}
	case OBVURem:
		if b.IsConst() && b.Val.Sign() > 0 {
			if k := int(b.Val.TrailingZeroBits()); b.Val.BitLen()-1 == k {
				if k == 0 {
					return st.BVu(0, w)
				}
				return st.bvBin(OBVAnd, a, st.BVConst(new(big.Int).Sub(b.Val, bigOne), w))
			}
		}
	case OBVShl, OBVLshr, OBVAshr:
		if isZero(b) {
			return a
		}
		if isZero(a) {
			return a
		}
		if b.IsConst() {
			if b.Val.Cmp(big.NewInt(int64(w))) >= 0 {
				if op != OBVAshr {
					return st.BVu(0, w)
				}
			} else {
				k := int(b.Val.Int64())
				if op == OBVLshr {
					return st.Zext(st.Extract(a, w-1, k), k)
				}
				if op == OBVShl {
					return st.Concat(st.Extract(a, w-1-k, 0), st.BVu(0, k))
				}
			}
		}
	}
	if (op == OBVAdd || op == OBVMul || op == OBVAnd || op == OBVOr || op == OBVXor) && a.ID > b.ID {
		a, b = b, a
	}
	return st.mk(op, a.S, []*Term{a, b}, nil, "", 0, 0)
}

func lowMaskBits(t *Term) int {
	if !t.IsConst() || t.Val.Sign() == 0 {
		return 0
	}
	v := new(big.Int).Add(t.Val, bigOne)
	// power of two?
	if v.BitLen()-1 == int(v.TrailingZeroBits()) {
		return v.BitLen() - 1
	}
	return 0
}

func (st *Store) BVAdd(a, b *Term) *Term  { return st.bvBin(OBVAdd, a, b) }
func (st *Store) BVSub(a, b *Term) *Term  { return st.bvBin(OBVSub, a, b) }
func (st *Store) BVMul(a, b *Term) *Term  { return st.bvBin(OBVMul, a, b) }
func (st *Store) BVAnd(a, b *Term) *Term  { return st.bvBin(OBVAnd, a, b) }
func (st *Store) BVOr(a, b *Term) *Term   { return st.bvBin(OBVOr, a, b) }
func (st *Store) BVXor(a, b *Term) *Term  { return st.bvBin(OBVXor, a, b) }
func (st *Store) BVShl(a, b *Term) *Term  { return st.bvBin(OBVShl, a, b) }
func (st *Store) BVLshr(a, b *Term) *Term { return st.bvBin(OBVLshr, a, b) }
func (st *Store) BVAshr(a, b *Term) *Term { return st.bvBin(OBVAshr, a, b) }
func (st *Store) BVUDiv(a, b *Term) *Term { return st.bvBin(OBVUDiv, a, b) }
func (st *Store) BVURem(a, b *Term) *Term { return st.bvBin(OBVURem, a, b) }
func (st *Store) BVSDiv(a, b *Term) *Term { return st.bvBin(OBVSDiv, a, b) }
func (st *Store) BVSRem(a, b *Term) *Term { return st.bvBin(OBVSRem, a, b) }

func (st *Store) BVNot(a *Term) *Term {
	if a.IsConst() {
		return st.BVConst(new(big.Int).Xor(a.Val, mask(a.S.W)), a.S.W)
	}
	if a.Op == OBVNot {
		return a.Args[0]
	}
	return st.mk(OBVNot, a.S, []*Term{a}, nil, "", 0, 0)
}

func (st *Store) BVNeg(a *Term) *Term {
	if a.IsConst() {
		return st.BVConst(new(big.Int).Neg(a.Val), a.S.W)
	}
	if !st.noLift && a.Op == OIte && iteConstTree(a) {
		return st.liftIte(a, st.BVNeg)
	}
	return st.mk(OBVNeg, a.S, []*Term{a}, nil, "", 0, 0)
}

func (st *Store) bvCmp(op Op, a, b *Term) *Term {
	if a.S != b.S || a.S.K != SBV {
		panic(fmt.Sprintf("bvCmp sort mismatch %v vs %v", a.S, b.S))
	}
	w := a.S.W
	if a.IsConst() && b.IsConst() {
		var r bool
		switch op {
		case OBVUlt:
			r = a.Val.Cmp(b.Val) < 0
		case OBVUle:
			r = a.Val.Cmp(b.Val) <= 0
		case OBVSlt:
			r = toSigned(a.Val, w).Cmp(toSigned(b.Val, w)) < 0
		case OBVSle:
			r = toSigned(a.Val, w).Cmp(toSigned(b.Val, w)) <= 0
		}
		return st.Bool(r)
	}
	if !st.noLift {
		if b.IsConst() && a.Op == OIte && iteConstTree(a) {
			return st.liftIte(a, func(x *Term) *Term { return st.bvCmp(op, x, b) })
		}
		if a.IsConst() && b.Op == OIte && iteConstTree(b) {
			return st.liftIte(b, func(x *Term) *Term { return st.bvCmp(op, a, x) })
		}
	}
	if a == b {
		return st.Bool(op == OBVUle || op == OBVSle)
	}
	if op == OBVUlt && b.IsConst() && b.Val.Sign() == 0 {
		return st.False()
	}
	if op == OBVUle && a.IsConst() && a.Val.Sign() == 0 {
		return st.True()
	}
	return st.mk(op, BoolSort, []*Term{a, b}, nil, "", 0, 0)
}

func (st *Store) BVUlt(a, b *Term) *Term { return st.bvCmp(OBVUlt, a, b) }
func (st *Store) BVUle(a, b *Term) *Term { return st.bvCmp(OBVUle, a, b) }
func (st *Store) BVSlt(a, b *Term) *Term { return st.bvCmp(OBVSlt, a, b) }
func (st *Store) BVSle(a, b *Term) *Term { return st.bvCmp(OBVSle, a, b) }

func (st *Store) Concat(hi, lo *Term) *Term {
	if hi.S.K != SBV || lo.S.K != SBV {
		panic("concat of non-BV")
	}
	w := hi.S.W + lo.S.W
	if hi.IsConst() && lo.IsConst() {
		v := new(big.Int).Lsh(hi.Val, uint(lo.S.W))
		v.Or(v, lo.Val)
		return st.BVConst(v, w)
	}
	// concat(extract(x,a,b), extract(x,b-1,c)) = extract(x,a,c)
	if hi.Op == OExtract && lo.Op == OExtract && hi.Args[0] == lo.Args[0] && hi.P1 == lo.P0+1 {
		return st.Extract(hi.Args[0], hi.P0, lo.P1)
	}
	// concat(0, zext-like): concat(const0, x) = zext
	if hi.IsConst() && hi.Val.Sign() == 0 {
		return st.Zext(lo, hi.S.W)
	}
	// concat(hi, concat(m, lo2)) with hi,m mergeable extracts
	if lo.Op == OConcat && hi.Op == OExtract && lo.Args[0].Op == OExtract && hi.Args[0] == lo.Args[0].Args[0] && hi.P1 == lo.Args[0].P0+1 {
		return st.Concat(st.Extract(hi.Args[0], hi.P0, lo.Args[0].P1), lo.Args[1])
	}
	return st.mk(OConcat, BV(w), []*Term{hi, lo}, nil, "", 0, 0)
}

func (st *Store) Extract(a *Term, hi, lo int) *Term {
	if a.S.K != SBV || hi < lo || hi >= a.S.W || lo < 0 {
		panic(fmt.Sprintf("bad extract [%d:%d] of %v", hi, lo, a.S))
	}
	if lo == 0 && hi == a.S.W-1 {
		return a
	}
	w := hi - lo + 1
	switch a.Op {
	case OConst:
		v := new(big.Int).Rsh(a.Val, uint(lo))
		return st.BVConst(v, w)
	case OExtract:
		return st.Extract(a.Args[0], a.P1+hi, a.P1+lo)
	case OConcat:
		lw := a.Args[1].S.W
		if hi < lw {
			return st.Extract(a.Args[1], hi, lo)
		}
		if lo >= lw {
			return st.Extract(a.Args[0], hi-lw, lo-lw)
		}
		return st.Concat(st.Extract(a.Args[0], hi-lw, 0), st.Extract(a.Args[1], lw-1, lo))
	case OZext:
		iw := a.Args[0].S.W
		if hi < iw {
			return st.Extract(a.Args[0], hi, lo)
		}
		if lo >= iw {
			return st.BVu(0, w)
		}
		return st.Zext(st.Extract(a.Args[0], iw-1, lo), hi-iw+1)
	case OSext:
		iw := a.Args[0].S.W
		if hi < iw {
			return st.Extract(a.Args[0], hi, lo)
		}
	case OIte:
		if !st.noLift && iteConstTree(a) {
			return st.liftIte(a, func(x *Term) *Term { return st.Extract(x, hi, lo) })
		}
	case OBVAnd, OBVOr, OBVXor:
		// bitwise ops commute with extract; only push when one side constant (keeps terms small)
		if a.Args[0].IsConst() || a.Args[1].IsConst() {
			return st.bvBin(a.Op, st.Extract(a.Args[0], hi, lo), st.Extract(a.Args[1], hi, lo))
		}
	case OBVAdd, OBVSub, OBVMul:
		// low bits of add/sub/mul depend only on low bits of operands
		if lo == 0 && (a.Args[0].Op == OZext || a.Args[1].Op == OZext || a.Args[0].Op == OConcat || a.Args[1].Op == OConcat || a.Args[0].IsConst() || a.Args[1].IsConst()) {
			return st.bvBin(a.Op, st.Extract(a.Args[0], hi, 0), st.Extract(a.Args[1], hi, 0))
		}
	}
	return st.mk(OExtract, BV(w), []*Term{a}, nil, "", hi, lo)
}

func (st *Store) Zext(a *Term, extra int) *Term {
	if extra == 0 {
		return a
	}
	if a.IsConst() {
		return st.BVConst(a.Val, a.S.W+extra)
	}
	if a.Op == OZext {
		return st.Zext(a.Args[0], a.P0+extra)
	}
	if !st.noLift && a.Op == OIte && iteConstTree(a) {
		return st.liftIte(a, func(x *Term) *Term { return st.Zext(x, extra) })
	}
	return st.mk(OZext, BV(a.S.W+extra), []*Term{a}, nil, "", extra, 0)
}

func (st *Store) Sext(a *Term, extra int) *Term {
	if extra == 0 {
		return a
	}
	if a.IsConst() {
		return st.BVConst(toSigned(a.Val, a.S.W), a.S.W+extra)
	}
	if !st.noLift && a.Op == OIte && iteConstTree(a) {
		return st.liftIte(a, func(x *Term) *Term { return st.Sext(x, extra) })
	}
	return st.mk(OSext, BV(a.S.W+extra), []*Term{a}, nil, "", extra, 0)
}

// ---- Int ----

func (st *Store) intN(op Op, as ...*Term) *Term {
	for _, a := range as {
		if a.S.K != SInt {
			panic("int op on non-int " + a.S.String())
		}
	}
	allc := true
	for _, a := range as {
		if !a.IsConst() {
			allc = false
		}
	}
	if allc {
		r := new(big.Int).Set(as[0].Val)
		for _, a := range as[1:] {
			switch op {
			case OIAdd:
				r.Add(r, a.Val)
			case OISub:
				r.Sub(r, a.Val)
			case OIMul:
				r.Mul(r, a.Val)
			case OIDiv:
				if a.Val.Sign() == 0 {
					return st.mk(op, IntSort, as, nil, "", 0, 0)
				}
				// SMT-LIB div: floor for positive divisor; Euclidean in general
				q, m := new(big.Int).DivMod(r, a.Val, new(big.Int))
				_ = m
				r = q
			case OIMod:
				if a.Val.Sign() == 0 {
					return st.mk(op, IntSort, as, nil, "", 0, 0)
				}
				r.Mod(r, new(big.Int).Abs(a.Val))
			}
		}
		return st.IntConst(r)
	}
	switch op {
	case OIAdd:
		var out []*Term
		c := new(big.Int)
		for _, a := range as {
			if a.IsConst() {
				c.Add(c, a.Val)
			} else if a.Op == OIAdd {
				for _, b := range a.Args {
					if b.IsConst() {
						c.Add(c, b.Val)
					} else {
						out = append(out, b)
					}
				}
			} else {
				out = append(out, a)
			}
		}
		if c.Sign() != 0 {
			out = append(out, st.IntConst(c))
		}
		if len(out) == 0 {
			return st.Inti(0)
		}
		if len(out) == 1 {
			return out[0]
		}
		return st.mk(OIAdd, IntSort, out, nil, "", 0, 0)
	case OIMul:
		var out []*Term
		c := big.NewInt(1)
		for _, a := range as {
			if a.IsConst() {
				c.Mul(c, a.Val)
			} else if a.Op == OIMul {
				for _, b := range a.Args {
					if b.IsConst() {
						c.Mul(c, b.Val)
					} else {
						out = append(out, b)
					}
				}
			} else {
				out = append(out, a)
			}
		}
		if c.Sign() == 0 {
			return st.Inti(0)
		}
		if c.Cmp(bigOne) != 0 {
			out = append([]*Term{st.IntConst(c)}, out...)
		}
		if len(out) == 0 {
			return st.Inti(1)
		}
		if len(out) == 1 {
			return out[0]
		}
		return st.mk(OIMul, IntSort, out, nil, "", 0, 0)
	case OISub:
		if len(as) == 2 && as[1].IsConst() && as[1].Val.Sign() == 0 {
			return as[0]
		}
		if len(as) == 2 && as[0] == as[1] {
			return st.Inti(0)
		}
	case OIDiv:
		if as[1].IsConst() && as[1].Val.Cmp(bigOne) == 0 {
			return as[0]
		}
	}
	return st.mk(op, IntSort, as, nil, "", 0, 0)
}

func (st *Store) IAdd(as ...*Term) *Term { return st.intN(OIAdd, as...) }
func (st *Store) IMul(as ...*Term) *Term { return st.intN(OIMul, as...) }
func (st *Store) ISub(a, b *Term) *Term  { return st.intN(OISub, a, b) }
func (st *Store) IDiv(a, b *Term) *Term  { return st.intN(OIDiv, a, b) }
func (st *Store) IMod(a, b *Term) *Term  { return st.intN(OIMod, a, b) }
func (st *Store) INeg(a *Term) *Term {
	if a.IsConst() {
		return st.IntConst(new(big.Int).Neg(a.Val))
	}
	return st.IMul(st.Inti(-1), a)
}
func (st *Store) ILe(a, b *Term) *Term {
	if a.IsConst() && b.IsConst() {
		return st.Bool(a.Val.Cmp(b.Val) <= 0)
	}
	return st.mk(OILe, BoolSort, []*Term{a, b}, nil, "", 0, 0)
}
func (st *Store) ILt(a, b *Term) *Term {
	if a.IsConst() && b.IsConst() {
		return st.Bool(a.Val.Cmp(b.Val) < 0)
	}
	return st.mk(OILt, BoolSort, []*Term{a, b}, nil, "", 0, 0)
}
func (st *Store) BV2Nat(a *Term) *Term {
	if a.IsConst() {
		return st.IntConst(a.Val)
	}
	return st.mk(OBV2Nat, IntSort, []*Term{a}, nil, "", 0, 0)
}
func (st *Store) Int2BV(a *Term, w int) *Term {
	if a.IsConst() {
		return st.BVConst(a.Val, w)
	}
	if a.Op == OBV2Nat && a.Args[0].S.W == w {
		return a.Args[0]
	}
	return st.mk(OInt2BV, BV(w), []*Term{a}, nil, "", w, 0)
}

// ---- Seq ----

func (st *Store) SeqEmpty() *Term { return st.mk(OSeqEmpty, SeqSort, nil, nil, "", 0, 0) }
func (st *Store) SeqUnit(b *Term) *Term {
	return st.mk(OSeqUnit, SeqSort, []*Term{b}, nil, "", 0, 0)
}
func (st *Store) SeqConcat(as ...*Term) *Term {
	var out []*Term
	for _, a := range as {
		if a.Op == OSeqEmpty {
			continue
		}
		if a.Op == OSeqConcat {
			out = append(out, a.Args...)
		} else {
			out = append(out, a)
		}
	}
	if len(out) == 0 {
		return st.SeqEmpty()
	}
	if len(out) == 1 {
		return out[0]
	}
	return st.mk(OSeqConcat, SeqSort, out, nil, "", 0, 0)
}
func (st *Store) SeqLen(a *Term) *Term {
	return st.mk(OSeqLen, IntSort, []*Term{a}, nil, "", 0, 0)
}

// ---- printing ----

func (t *Term) head() string {
	switch t.Op {
	case OConst:
		switch t.S.K {
		case SBool:
			if t.Val.Sign() != 0 {
				return "true"
			}
			return "false"
		case SBV:
			if t.S.W%4 == 0 {
				s := t.Val.Text(16)
				return "#x" + strings.Repeat("0", t.S.W/4-len(s)) + s
			}
			s := t.Val.Text(2)
			return "#b" + strings.Repeat("0", t.S.W-len(s)) + s
		case SInt:
			if t.Val.Sign() < 0 {
				return "(- " + new(big.Int).Neg(t.Val).String() + ")"
			}
			return t.Val.String()
		}
	case OSym:
		return smtName(t.Name)
	case OSeqEmpty:
		return "(as seq.empty (Seq (_ BitVec 8)))"
	}
	return ""
}

func smtName(n string) string {
	ok := true
	for _, c := range n {
		if !(c >= 'a' && c <= 'z' || c >= 'A' && c <= 'Z' || c >= '0' && c <= '9' || c == '_' || c == '.' || c == '!' || c == '$') {
			ok = false
		}
	}
	if ok {
		return n
	}
	return "|" + n + "|"
}

// Emit writes declarations and definitions for all terms reachable from roots,
// and returns the SMT name of each root.
func (st *Store) Emit(sb *strings.Builder, roots []*Term) []string {
	// collect reachable
	seen := map[int]bool{}
	var order []*Term
	var stack []*Term
	// iterative post-order
	type fr struct {
		t *Term
		i int
	}
	for _, r := range roots {
		if seen[r.ID] {
			continue
		}
		st2 := []fr{{r, 0}}
		seen[r.ID] = true
		for len(st2) > 0 {
			f := &st2[len(st2)-1]
			if f.i < len(f.t.Args) {
				a := f.t.Args[f.i]
				f.i++
				if !seen[a.ID] {
					seen[a.ID] = true
					st2 = append(st2, fr{a, 0})
				}
				continue
			}
			order = append(order, f.t)
			st2 = st2[:len(st2)-1]
		}
	}
	_ = stack
	// refcounts to inline single-use small nodes
	refs := map[int]int{}
	for _, t := range order {
		for _, a := range t.Args {
			refs[a.ID]++
		}
	}
	// declarations
	usorts := map[string]bool{}
	syms := []*Term{}
	ufs := map[string]bool{}
	for _, t := range order {
		if t.S.K == SUSort {
			usorts[t.S.Name] = true
		}
		if t.Op == OSym {
			syms = append(syms, t)
		}
		if t.Op == OUF {
			ufs[t.Name] = true
			d := st.ufs[t.Name]
			for _, s := range d.args {
				if s.K == SUSort {
					usorts[s.Name] = true
				}
			}
		}
	}
	var us []string
	for s := range usorts {
		us = append(us, s)
	}
	sort.Strings(us)
	for _, s := range us {
		fmt.Fprintf(sb, "(declare-sort %s 0)\n", s)
	}
	sort.Slice(syms, func(i, j int) bool { return syms[i].Name < syms[j].Name })
	for _, s := range syms {
		fmt.Fprintf(sb, "(declare-fun %s () %s)\n", smtName(s.Name), s.S)
	}
	var un []string
	for n := range ufs {
		un = append(un, n)
	}
	sort.Strings(un)
	for _, n := range un {
		d := st.ufs[n]
		var as []string
		for _, a := range d.args {
			as = append(as, a.String())
		}
		fmt.Fprintf(sb, "(declare-fun %s (%s) %s)\n", smtName(n), strings.Join(as, " "), d.res)
	}
	names := map[int]string{}
	inlDepth := map[int]int{}
	var expr func(t *Term) string
	ref := func(t *Term) string {
		if n, ok := names[t.ID]; ok {
			return n
		}
		return expr(t)
	}
	expr = func(t *Term) string {
		if h := t.head(); h != "" {
			return h
		}
		var as []string
		for _, a := range t.Args {
			as = append(as, ref(a))
		}
		j := strings.Join(as, " ")
		switch t.Op {
		case OUF:
			return "(" + smtName(t.Name) + " " + j + ")"
		case OExtract:
			return fmt.Sprintf("((_ extract %d %d) %s)", t.P0, t.P1, j)
		case OZext:
			return fmt.Sprintf("((_ zero_extend %d) %s)", t.P0, j)
		case OSext:
			return fmt.Sprintf("((_ sign_extend %d) %s)", t.P0, j)
		case OInt2BV:
			return fmt.Sprintf("((_ int2bv %d) %s)", t.P0, j)
		case OINeg:
			return "(- " + j + ")"
		}
		return "(" + opNames[t.Op] + " " + j + ")"
	}
	for _, t := range order {
		if t.Op == OConst || t.Op == OSym || t.Op == OSeqEmpty {
			continue
		}
		// inline single-use small terms, but never more than a few levels deep: a long chain of single-use terms
		// (a cell rewritten again and again under fresh conditions) would otherwise be printed as one nested
		// string whose construction is quadratic in the chain length
		d := 1
		for _, a := range t.Args {
			if _, named := names[a.ID]; !named {
				if x := inlDepth[a.ID] + 1; x > d {
					d = x
				}
			}
		}
		if refs[t.ID] <= 1 && len(t.Args) <= 3 && d <= 6 {
			inlDepth[t.ID] = d
			continue
		}
		e := expr(t)
		n := fmt.Sprintf("t%d", t.ID)
		fmt.Fprintf(sb, "(define-fun %s () %s %s)\n", n, t.S, e)
		names[t.ID] = n
	}
	out := make([]string, len(roots))
	for i, r := range roots {
		out[i] = ref(r)
	}
	return out
}

// Size returns the number of distinct nodes reachable from t.
func Size(ts ...*Term) int {
	seen := map[int]bool{}
	var stack []*Term
	stack = append(stack, ts...)
	for len(stack) > 0 {
		t := stack[len(stack)-1]
		stack = stack[:len(stack)-1]
		if seen[t.ID] {
			continue
		}
		seen[t.ID] = true
		stack = append(stack, t.Args...)
	}
	return len(seen)
}

// Syms returns the free symbols of the given terms.
func Syms(ts ...*Term) []*Term {
	seen := map[int]bool{}
	var out []*Term
	var stack []*Term
	stack = append(stack, ts...)
	for len(stack) > 0 {
		t := stack[len(stack)-1]
		stack = stack[:len(stack)-1]
		if seen[t.ID] {
			continue
		}
		seen[t.ID] = true
		if t.Op == OSym {
			out = append(out, t)
		}
		stack = append(stack, t.Args...)
	}
	sort.Slice(out, func(i, j int) bool { return out[i].Name < out[j].Name })
	return out
}
