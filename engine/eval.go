package main

// Concrete evaluation of terms under an assignment (used for debugging and translator validation).

import (
	"fmt"
	"math/big"
)

func (st *Store) Eval(t *Term, env map[string]*big.Int, memo map[int]*big.Int) *big.Int {
	if v, ok := memo[t.ID]; ok {
		return v
	}
	var r *big.Int
	b2i := func(b bool) *big.Int {
		if b {
			return big.NewInt(1)
		}
		return big.NewInt(0)
	}
	arg := func(i int) *big.Int { return st.Eval(t.Args[i], env, memo) }
	w := t.S.W
	switch t.Op {
	case OConst:
		r = t.Val
	case OSym:
		v, ok := env[t.Name]
		if !ok {
			v = big.NewInt(0)
		}
		r = v
	case ONot:
		r = b2i(arg(0).Sign() == 0)
	case OAnd:
		r = big.NewInt(1)
		for i := range t.Args {
			if arg(i).Sign() == 0 {
				r = big.NewInt(0)
			}
		}
	case OOr:
		r = big.NewInt(0)
		for i := range t.Args {
			if arg(i).Sign() != 0 {
				r = big.NewInt(1)
			}
		}
	case OEq:
		r = b2i(arg(0).Cmp(arg(1)) == 0)
	case OIte:
		if arg(0).Sign() != 0 {
			r = arg(1)
		} else {
			r = arg(2)
		}
	case OBVAdd, OBVSub, OBVMul, OBVUDiv, OBVURem, OBVSDiv, OBVSRem, OBVAnd, OBVOr, OBVXor, OBVShl, OBVLshr, OBVAshr:
		c := NewStore()
		x := c.bvBin(t.Op, c.BVConst(arg(0), w), c.BVConst(arg(1), w))
		r = x.Val
	case OBVNot:
		r = new(big.Int).Xor(arg(0), mask(w))
	case OBVNeg:
		r = norm(new(big.Int).Neg(arg(0)), w)
	case OBVUlt:
		r = b2i(arg(0).Cmp(arg(1)) < 0)
	case OBVUle:
		r = b2i(arg(0).Cmp(arg(1)) <= 0)
	case OBVSlt:
		aw := t.Args[0].S.W
		r = b2i(toSigned(arg(0), aw).Cmp(toSigned(arg(1), aw)) < 0)
	case OBVSle:
		aw := t.Args[0].S.W
		r = b2i(toSigned(arg(0), aw).Cmp(toSigned(arg(1), aw)) <= 0)
	case OConcat:
		r = new(big.Int).Lsh(arg(0), uint(t.Args[1].S.W))
		r.Or(r, arg(1))
	case OExtract:
		r = norm(new(big.Int).Rsh(arg(0), uint(t.P1)), t.P0-t.P1+1)
	case OZext:
		r = arg(0)
	case OSext:
		r = norm(toSigned(arg(0), t.Args[0].S.W), w)
	case OBV2Nat:
		r = arg(0)
	case OIAdd:
		r = new(big.Int)
		for i := range t.Args {
			r.Add(r, arg(i))
		}
	case OISub:
		r = new(big.Int).Sub(arg(0), arg(1))
	case OIMul:
		r = big.NewInt(1)
		for i := range t.Args {
			r.Mul(r, arg(i))
		}
	default:
		panic(fmt.Sprintf("Eval: unsupported op %d", t.Op))
	}
	memo[t.ID] = r
	return r
}
