package main

// Translator for the one assembly routine of the repository
// (internal/ge25519/scalarmult_base_choose_niels_amd64.s): straight-line
// SSE2/integer code.  The text is parsed from the current tree on every run.
// Anything outside the small supported subset (labels, jumps, unknown
// mnemonics or operand forms) makes the routine "unsupported" => obligations
// that reach it are inconclusive, never violations.

import (
	"fmt"
	"os"
	"path/filepath"
	"regexp"
	"strconv"
	"strings"
)

type asmInstr struct {
	op   string
	args []string
	line int
}

type asmFunc struct {
	name   string
	params map[string]int // name -> FP offset
	ins    []asmInstr
	err    string
}

var asmMemRe = regexp.MustCompile(`^(-?\d+)?\((\w+)\)$`)
var asmFPRe = regexp.MustCompile(`^(\w+)\+(\d+)\(FP\)$`)

func parseAsm(path string) (*asmFunc, error) {
	b, err := os.ReadFile(path)
	if err != nil {
		return nil, err
	}
	f := &asmFunc{params: map[string]int{}}
	for ln, line := range strings.Split(string(b), "\n") {
		if i := strings.Index(line, "//"); i >= 0 {
			line = line[:i]
		}
		line = strings.TrimSpace(line)
		if line == "" || strings.HasPrefix(line, "#") {
			continue
		}
		if strings.HasPrefix(line, "TEXT") {
			m := regexp.MustCompile(`TEXT\s+·(\w+)\(SB\)`).FindStringSubmatch(line)
			if m == nil {
				return nil, fmt.Errorf("line %d: cannot parse TEXT", ln+1)
			}
			if f.name != "" {
				return nil, fmt.Errorf("line %d: more than one TEXT", ln+1)
			}
			f.name = m[1]
			continue
		}
		if strings.HasSuffix(line, ":") {
			return nil, fmt.Errorf("line %d: labels are not supported", ln+1)
		}
		sp := strings.IndexAny(line, " \t")
		in := asmInstr{line: ln + 1}
		if sp < 0 {
			in.op = line
		} else {
			in.op = line[:sp]
			for _, a := range strings.Split(line[sp+1:], ",") {
				in.args = append(in.args, strings.TrimSpace(a))
			}
		}
		f.ins = append(f.ins, in)
	}
	if f.name == "" {
		return nil, fmt.Errorf("no TEXT directive")
	}
	return f, nil
}

type asmState struct {
	e    *Engine
	fr   *Frame
	s    *State
	pos  string
	gpr  map[string]*Term // 64-bit
	xmm  map[string]*Term // 128-bit
	ptrs map[string]*Ptr  // registers holding pointers
	args []Value
	fp   map[int]int // FP offset -> arg index
	cmpA *Term
	cmpB *Term
}

func (a *asmState) imm(s string) (*Term, bool) {
	if !strings.HasPrefix(s, "$") {
		return nil, false
	}
	v, err := strconv.ParseUint(strings.TrimPrefix(s, "$"), 0, 64)
	if err != nil {
		iv, err2 := strconv.ParseInt(strings.TrimPrefix(s, "$"), 0, 64)
		if err2 != nil {
			panic(unsupported("asm immediate %s", s))
		}
		v = uint64(iv)
	}
	return a.e.st.BVu(v, 64), true
}

func isXmm(r string) bool { return len(r) >= 2 && r[0] == 'X' && r[1] >= '0' && r[1] <= '9' }

func (a *asmState) g(r string) *Term {
	if v, ok := a.gpr[r]; ok {
		return v
	}
	panic(unsupported("asm: read of undefined register %s", r))
}
func (a *asmState) x(r string) *Term {
	if v, ok := a.xmm[r]; ok {
		return v
	}
	panic(unsupported("asm: read of undefined register %s", r))
}

func (a *asmState) dwords(v *Term) [4]*Term {
	var d [4]*Term
	for i := 0; i < 4; i++ {
		d[i] = a.e.st.Extract(v, 32*i+31, 32*i)
	}
	return d
}
func (a *asmState) fromDwords(d [4]*Term) *Term {
	st := a.e.st
	return st.Concat(d[3], st.Concat(d[2], st.Concat(d[1], d[0])))
}

func (e *Engine) runAsm(f *asmFunc, fr *Frame, s *State, args []Value, pos string, paramOff []int) Value {
	st := e.st
	a := &asmState{e: e, fr: fr, s: s, pos: pos, gpr: map[string]*Term{}, xmm: map[string]*Term{}, ptrs: map[string]*Ptr{}, args: args, fp: map[int]int{}}
	for i, off := range paramOff {
		a.fp[off] = i
	}
	for _, in := range f.ins {
		ar := in.args
		bad := func() { panic(unsupported("asm line %d: unsupported form %s %s", in.line, in.op, strings.Join(ar, ", "))) }
		switch in.op {
		case "RET":
			return nil
		case "MOVQ":
			if len(ar) != 2 {
				bad()
			}
			src, dst := ar[0], ar[1]
			if m := asmFPRe.FindStringSubmatch(src); m != nil {
				off, _ := strconv.Atoi(m[2])
				ai, ok := a.fp[off]
				if !ok {
					bad()
				}
				switch v := args[ai].(type) {
				case *Term:
					a.gpr[dst] = v
					delete(a.ptrs, dst)
				case *Ptr:
					a.ptrs[dst] = v
					delete(a.gpr, dst)
				default:
					bad()
				}
				continue
			}
			if m := asmMemRe.FindStringSubmatch(dst); m != nil {
				// store 64-bit register to memory
				off := 0
				if m[1] != "" {
					off, _ = strconv.Atoi(m[1])
				}
				p, ok := a.ptrs[m[2]]
				if !ok || off%8 != 0 {
					bad()
				}
				if e.ptrLeafWidth(p) != 64 {
					bad()
				}
				e.storeVal(s, e.ptrAdd(p, off/8), a.g(src), leafT, pos, fr)
				continue
			}
			if v, ok := a.imm(src); ok {
				a.gpr[dst] = v
				continue
			}
			if _, isMem := a.ptrs[src]; isMem {
				bad()
			}
			a.gpr[dst] = a.g(src)
		case "MOVD":
			if len(ar) != 2 {
				bad()
			}
			src, dst := ar[0], ar[1]
			switch {
			case isXmm(dst) && !isXmm(src):
				a.xmm[dst] = st.Zext(a.g(src), 64)
			case isXmm(src) && !isXmm(dst):
				a.gpr[dst] = st.Extract(a.x(src), 63, 0)
			default:
				bad()
			}
		case "MOVOU":
			if len(ar) != 2 {
				bad()
			}
			src, dst := ar[0], ar[1]
			if m := asmMemRe.FindStringSubmatch(src); m != nil {
				off := 0
				if m[1] != "" {
					off, _ = strconv.Atoi(m[1])
				}
				p, ok := a.ptrs[m[2]]
				if !ok || !isXmm(dst) || e.ptrLeafWidth(p) != 8 {
					bad()
				}
				var v *Term
				for k := 0; k < 16; k++ {
					b := e.load(s, e.ptrAdd(p, off+k), leafT, pos, fr).(*Term)
					if b.Sec {
						// value taint is fine; address is public
					}
					if v == nil {
						v = b
					} else {
						v = st.Concat(b, v)
					}
				}
				a.xmm[dst] = v
				continue
			}
			if isXmm(src) && isXmm(dst) {
				a.xmm[dst] = a.x(src)
				continue
			}
			bad()
		case "PSHUFD":
			if len(ar) != 3 {
				bad()
			}
			immv, ok := a.imm(ar[0])
			if !ok {
				bad()
			}
			im := int(immv.Val.Int64())
			d := a.dwords(a.x(ar[1]))
			var o [4]*Term
			for i := 0; i < 4; i++ {
				o[i] = d[(im>>(2*i))&3]
			}
			a.xmm[ar[2]] = a.fromDwords(o)
		case "PXOR", "PAND", "POR":
			if len(ar) != 2 || !isXmm(ar[0]) || !isXmm(ar[1]) {
				bad()
			}
			if in.op == "PXOR" && ar[0] == ar[1] {
				a.xmm[ar[1]] = st.BVu(0, 128)
				continue
			}
			x, y := a.x(ar[0]), a.x(ar[1])
			switch in.op {
			case "PXOR":
				a.xmm[ar[1]] = st.BVXor(y, x)
			case "PAND":
				a.xmm[ar[1]] = st.BVAnd(y, x)
			case "POR":
				a.xmm[ar[1]] = st.BVOr(y, x)
			}
		case "PCMPEQL":
			if len(ar) != 2 {
				bad()
			}
			x, y := a.dwords(a.x(ar[0])), a.dwords(a.x(ar[1]))
			var o [4]*Term
			for i := 0; i < 4; i++ {
				o[i] = st.Ite(st.Eq(x[i], y[i]), st.BVConst(mask(32), 32), st.BVu(0, 32))
			}
			a.xmm[ar[1]] = a.fromDwords(o)
		case "SHRQ":
			immv, ok := a.imm(ar[0])
			if !ok {
				bad()
			}
			k := int(immv.Val.Int64())
			switch len(ar) {
			case 2:
				a.gpr[ar[1]] = st.BVLshr(a.g(ar[1]), st.BVu(uint64(k), 64))
			case 3:
				// SHRQ $k, hi, lo : lo = (lo >> k) | (hi << (64-k))
				hi, lo := a.g(ar[1]), a.g(ar[2])
				a.gpr[ar[2]] = st.BVOr(st.BVLshr(lo, st.BVu(uint64(k), 64)), st.BVShl(hi, st.BVu(uint64(64-k), 64)))
			default:
				bad()
			}
		case "ANDQ", "XORQ", "SUBQ":
			if len(ar) != 2 {
				bad()
			}
			var src *Term
			if v, ok := a.imm(ar[0]); ok {
				src = v
			} else {
				src = a.g(ar[0])
			}
			d := a.g(ar[1])
			switch in.op {
			case "ANDQ":
				a.gpr[ar[1]] = st.BVAnd(d, src)
			case "XORQ":
				a.gpr[ar[1]] = st.BVXor(d, src)
			case "SUBQ":
				a.gpr[ar[1]] = st.BVSub(d, src)
			}
		case "CMPQ":
			if len(ar) != 2 {
				bad()
			}
			var x, y *Term
			if v, ok := a.imm(ar[0]); ok {
				x = v
			} else {
				x = a.g(ar[0])
			}
			if v, ok := a.imm(ar[1]); ok {
				y = v
			} else {
				y = a.g(ar[1])
			}
			a.cmpA, a.cmpB = x, y
		case "CMOVQEQ":
			if len(ar) != 2 || a.cmpA == nil {
				bad()
			}
			a.gpr[ar[1]] = st.Ite(st.Eq(a.cmpA, a.cmpB), a.g(ar[0]), a.g(ar[1]))
		default:
			bad()
		}
	}
	panic(unsupported("asm: fell off the end of %s without RET", f.name))
}

// ptrLeafWidth returns the integer cell width of the object p points into (0 if unknown/mixed).
func (e *Engine) ptrLeafWidth(p *Ptr) int {
	w := -1
	for _, a := range p.Alts {
		if a.Obj == nil || a.Obj.Typ == nil {
			return 0
		}
		lw := e.leafWidthAny(a.Obj.Typ)
		if w >= 0 && lw != w {
			return 0
		}
		w = lw
	}
	if w < 0 {
		return 0
	}
	return w
}

func registerAsm(e *Engine, l *Loaded) {
	path := filepath.Join(repoDir, "internal/ge25519/scalarmult_base_choose_niels_amd64.s")
	f, err := parseAsm(path)
	full := modPath + "/internal/ge25519.scalarmultBaseChooseNielsAMD64"
	if err != nil {
		e.asmFuncs[full] = func(e *Engine, fr *Frame, s *State, args []Value, pos string) Value {
			panic(unsupported("assembly routine not translatable: %v", err))
		}
		return
	}
	e.asmFuncs[full] = func(e *Engine, fr *Frame, s *State, args []Value, pos string) Value {
		if f.name != "scalarmultBaseChooseNielsAMD64" {
			panic(unsupported("assembly TEXT symbol is %s", f.name))
		}
		e.funcsSeen[full+" (assembly, "+fmt.Sprint(len(f.ins))+" instructions translated)"] = len(f.ins)
		return e.runAsm(f, fr, s, args, pos, []int{0, 8, 16, 24})
	}
}
