package main

import (
	"fmt"
	"go/constant"
	"go/token"
	"go/types"
	"math/big"
	"os"
	"runtime"
	"strconv"
	"strings"
	"sync/atomic"
	"time"

	"golang.org/x/tools/go/ssa"
)

// resource guard: a watchdog goroutine raises resourceAbort when the Go heap exceeds the limit; the interpreter
// loop then abandons the current harness (an engine fault: inconclusive), instead of taking the machine down
var resourceAbort atomic.Bool

func memLimitMB() int {
	if v, err := strconv.Atoi(os.Getenv("VERIF_MEM_LIMIT_MB")); err == nil && v > 0 {
		return v
	}
	return 20000
}

func startResourceWatchdog() {
	go func() {
		var ms runtime.MemStats
		for {
			time.Sleep(500 * time.Millisecond)
			runtime.ReadMemStats(&ms)
			if ms.HeapAlloc > uint64(memLimitMB())<<20 {
				resourceAbort.Store(true)
			} else if resourceAbort.Load() && ms.HeapAlloc < uint64(memLimitMB())<<19 {
				resourceAbort.Store(false)
			}
		}
	}()
}

type Engine struct {
	st   *Store
	prog *ssa.Program
	fset *token.FileSet
	intw int
	cfg  string // build configuration name

	objN        int
	globals     map[*ssa.Global]*Object
	maxIndexFan int
	maxSymFork  int
	skipStopOnce bool // vLoopStep: the first visit of the stop block is the loop entry, not its end
	frames       []*Frame // call stack (vCallerLocal)
	errN         int      // identities of error values created by errors.New / fmt.Errorf

	// per harness run
	H *HarnessRun

	pdoms map[*ssa.Function]map[*ssa.BasicBlock]*ssa.BasicBlock

	replace     map[*ssa.Function]*ssa.Function
	replaceName map[string]*ssa.Function

	steps     int64
	stubTypes map[string]types.Type
	asmFuncs  map[string]stdHandler
	feasCheck func([]*Term) bool
	feasQueries int
	harnCache   map[*ssa.Function]bool
	funcsSeen map[string]int // functions symbolically executed -> instruction count
	depth     int
}

type Frame struct {
	fn    *ssa.Function
	regs  map[ssa.Value]Value
	bind  []Value
	forks map[ssa.Instruction]int
	harn  bool
}

func (fr *Frame) clone() *Frame {
	r := make(map[ssa.Value]Value, len(fr.regs))
	for k, v := range fr.regs {
		r[k] = v
	}
	f := make(map[ssa.Instruction]int, len(fr.forks))
	for k, v := range fr.forks {
		f[k] = v
	}
	return &Frame{fn: fr.fn, regs: r, bind: fr.bind, forks: f, harn: fr.harn}
}

type annotated struct{ msg string }

func (a annotated) String() string { return a.msg }

type okind int

const (
	oDead okind = iota
	oStop
	oReturn
)

type outcome struct {
	k    okind
	phis []Value
	ret  Value
}

// harness code = any function whose source lies in an injected overlay file (zz_verif_*.go)
func (e *Engine) isHarnessFn(fn *ssa.Function) bool {
	top := fn
	for p := fn; p != nil; p = p.Parent() {
		top = p
	}
	if v, ok := e.harnCache[top]; ok {
		return v
	}
	r := false
	if top.Pos().IsValid() {
		f := e.fset.Position(top.Pos()).Filename
		r = strings.HasPrefix(f[strings.LastIndex(f, "/")+1:], "zz_verif_")
	} else {
		n := top.Name()
		r = strings.HasPrefix(n, "vh_") || strings.HasPrefix(n, "vc_") || strings.HasPrefix(n, "vs_")
	}
	e.harnCache[top] = r
	return r
}

func (e *Engine) pos(i ssa.Instruction) string {
	p := i.Pos()
	if !p.IsValid() {
		// fall back to function position
		if i.Parent() != nil {
			return i.Parent().String()
		}
		return "?"
	}
	ps := e.fset.Position(p)
	return fmt.Sprintf("%s:%d", trimRepo(ps.Filename), ps.Line)
}

func trimRepo(f string) string {
	return strings.TrimPrefix(f, repoDir+"/")
}

// ---------------------------------------------------------------------------

func (e *Engine) callFunction(s *State, fn *ssa.Function, args []Value, bind []Value) Value {
	if fn.Blocks == nil {
		panic(unsupported("call of body-less function %s", fn.String()))
	}
	e.depth++
	if e.depth > 200 {
		panic(unsupported("call depth exceeded at %s", fn.String()))
	}
	defer func() { e.depth-- }()
	if _, ok := e.funcsSeen[fn.String()]; !ok {
		n := 0
		for _, b := range fn.Blocks {
			n += len(b.Instrs)
		}
		e.funcsSeen[fn.String()] = n
	}
	fr := &Frame{fn: fn, regs: make(map[ssa.Value]Value), bind: bind, forks: map[ssa.Instruction]int{}, harn: e.isHarnessFn(fn)}
	for i, p := range fn.Params {
		fr.regs[p] = args[i]
	}
	e.frames = append(e.frames, fr)
	nfr := len(e.frames)
	defer func() { e.frames = e.frames[:nfr-1] }()
	o := e.run(&fr, s, fn.Blocks[0], nil, nil, nil)
	if o.k == oDead {
		s.dead = true
		return nil
	}
	return o.ret
}

// blockInLoop reports whether b belongs to the natural loop of header (b reaches a back edge of header without
// leaving through header): computed as "header dominates b and b reaches header".
func (e *Engine) blockInLoop(fn *ssa.Function, header, b *ssa.BasicBlock) bool {
	if b == header {
		return true
	}
	if !header.Dominates(b) {
		return false
	}
	seen := map[*ssa.BasicBlock]bool{}
	var reach func(x *ssa.BasicBlock) bool
	reach = func(x *ssa.BasicBlock) bool {
		if x == header {
			return true
		}
		if seen[x] {
			return false
		}
		seen[x] = true
		for _, s := range x.Succs {
			if reach(s) {
				return true
			}
		}
		return false
	}
	for _, s := range b.Succs {
		if reach(s) {
			return true
		}
	}
	return false
}

func (e *Engine) ipdom(fn *ssa.Function, b *ssa.BasicBlock) *ssa.BasicBlock {
	m, ok := e.pdoms[fn]
	if !ok {
		m = computeIPdom(fn)
		e.pdoms[fn] = m
	}
	return m[b]
}

// computeIPdom computes immediate post-dominators with a virtual exit joined
// to every Return block.  Panic blocks do not reach the exit.  nil = exit.
func computeIPdom(fn *ssa.Function) map[*ssa.BasicBlock]*ssa.BasicBlock {
	n := len(fn.Blocks)
	exit := n
	succs := make([][]int, n+1)
	preds := make([][]int, n+1)
	for _, b := range fn.Blocks {
		last := b.Instrs[len(b.Instrs)-1]
		if _, ok := last.(*ssa.Return); ok {
			succs[b.Index] = append(succs[b.Index], exit)
			preds[exit] = append(preds[exit], b.Index)
		}
		for _, sb := range b.Succs {
			succs[b.Index] = append(succs[b.Index], sb.Index)
			preds[sb.Index] = append(preds[sb.Index], b.Index)
		}
	}
	// reverse post-order on reversed graph from exit
	order := []int{}
	seen := make([]bool, n+1)
	var dfs func(int)
	dfs = func(u int) {
		seen[u] = true
		for _, p := range preds[u] {
			if !seen[p] {
				dfs(p)
			}
		}
		order = append(order, u)
	}
	dfs(exit)
	rpoNum := make([]int, n+1)
	for i := range rpoNum {
		rpoNum[i] = -1
	}
	rpo := make([]int, len(order))
	for i := range order {
		rpo[i] = order[len(order)-1-i]
		rpoNum[rpo[i]] = i
	}
	idom := make([]int, n+1)
	for i := range idom {
		idom[i] = -1
	}
	idom[exit] = exit
	intersect := func(a, b int) int {
		for a != b {
			for rpoNum[a] > rpoNum[b] {
				a = idom[a]
			}
			for rpoNum[b] > rpoNum[a] {
				b = idom[b]
			}
		}
		return a
	}
	changed := true
	for changed {
		changed = false
		for _, u := range rpo {
			if u == exit {
				continue
			}
			nw := -1
			for _, sx := range succs[u] {
				if rpoNum[sx] < 0 || idom[sx] < 0 {
					continue
				}
				if nw < 0 {
					nw = sx
				} else {
					nw = intersect(nw, sx)
				}
			}
			if nw >= 0 && idom[u] != nw {
				idom[u] = nw
				changed = true
			}
		}
	}
	out := map[*ssa.BasicBlock]*ssa.BasicBlock{}
	for _, b := range fn.Blocks {
		d := idom[b.Index]
		if d >= 0 && d < n {
			out[b] = fn.Blocks[d]
		} else {
			out[b] = nil
		}
	}
	return out
}

func (e *Engine) evalPhis(fr *Frame, blk, prev *ssa.BasicBlock) []Value {
	var idx = -1
	for i, p := range blk.Preds {
		if p == prev {
			idx = i
			break
		}
	}
	var out []Value
	for _, in := range blk.Instrs {
		phi, ok := in.(*ssa.Phi)
		if !ok {
			break
		}
		if idx < 0 {
			panic(unsupported("phi without matching predecessor in %s", fr.fn))
		}
		out = append(out, e.get(fr, phi.Edges[idx]))
	}
	return out
}

// run executes from blk (entered from prev, or with precomputed phi values) until stop (nil = function exit).
func (e *Engine) run(frp **Frame, s *State, blk, prev, stop *ssa.BasicBlock, phis []Value) outcome {
	for {
		fr := *frp
		if blk == stop && stop != nil {
			if e.skipStopOnce {
				e.skipStopOnce = false
			} else {
				return outcome{k: oStop, phis: e.evalPhis(fr, blk, prev)}
			}
		}
		if phis == nil && prev != nil {
			phis = e.evalPhis(fr, blk, prev)
		}
		pi := 0
		for _, in := range blk.Instrs {
			if phi, ok := in.(*ssa.Phi); ok {
				fr.regs[phi] = phis[pi]
				pi++
				continue
			}
			break
		}
		phis = nil
		for _, in := range blk.Instrs[pi:] {
			e.steps++
			if e.steps&1023 == 0 && resourceAbort.Load() {
				panic(unsupported("resource limit: the executor's heap exceeded %d MB while running this harness (term growth); harness abandoned", memLimitMB()))
			}
			switch i := in.(type) {
			case *ssa.Jump:
				prev, blk = blk, blk.Succs[0]
			case *ssa.If:
				c := e.get(fr, i.Cond).(*Term)
				if c.IsTrue() {
					prev, blk = blk, blk.Succs[0]
					break
				}
				if c.IsFalse() {
					prev, blk = blk, blk.Succs[1]
					break
				}
				e.noteBranch(fr, i, c)
				// the path condition may already decide the branch syntactically
				if e.st.And(s.pc, c).IsFalse() {
					prev, blk = blk, blk.Succs[1]
					break
				}
				if e.st.And(s.pc, e.st.Not(c)).IsFalse() {
					prev, blk = blk, blk.Succs[0]
					break
				}
				if (e.H.noMerge && !fr.harn) || (e.H.enumFn != nil && fr.fn == e.H.enumFn) {
					// path enumeration: this run follows one side; the harness is re-executed for the other
					h := e.H
					var v int
					if h.cidx < len(h.choices) {
						v = h.choices[h.cidx]
					} else {
						h.choices = append(h.choices, 0)
					}
					if h.cidx < len(h.ranges) {
						h.ranges[h.cidx] = [2]int{0, 1}
					} else {
						h.ranges = append(h.ranges, [2]int{0, 1})
					}
					h.cidx++
					cc := c
					if v == 1 {
						cc = e.st.Not(c)
					}
					if e.st.And(s.pc, cc).IsFalse() {
						s.dead = true
						return outcome{k: oDead}
					}
					s.pc = e.st.And(s.pc, cc)
					prev, blk = blk, blk.Succs[v]
					break
				}
				fr.forks[i]++
				if fr.forks[i] > e.maxSymFork {
					// unwinding obligation: this path must be infeasible
					e.H.addUnwind(e, s, e.pos(i))
					s.dead = true
					return outcome{k: oDead}
				}
				ip := e.ipdom(fr.fn, blk)
				if e.H.pruneForks {
					// feasibility pruning of each side
					f1 := e.H.feasible(e, s, c)
					f2 := e.H.feasible(e, s, e.st.Not(c))
					if f1 && !f2 {
						prev, blk = blk, blk.Succs[0]
						break
					}
					if f2 && !f1 {
						prev, blk = blk, blk.Succs[1]
						break
					}
					if !f1 && !f2 {
						s.dead = true
						return outcome{k: oDead}
					}
				}
				f1, f2 := fr.clone(), fr.clone()
				s1 := s.child(e.st.And(s.pc, c))
				s2 := s.child(e.st.And(s.pc, e.st.Not(c)))
				o1 := e.run(&f1, s1, blk.Succs[0], blk, ip, nil)
				o2 := e.run(&f2, s2, blk.Succs[1], blk, ip, nil)
				var mo outcome
				switch {
				case o1.k == oDead && o2.k == oDead:
					s.dead = true
					return outcome{k: oDead}
				case o1.k == oDead:
					s.adopt(s2)
					*frp = f2
					mo = o2
				case o2.k == oDead:
					s.adopt(s1)
					*frp = f1
					mo = o1
				default:
					if o1.k != o2.k {
						panic(unsupported("region outcomes differ at %s", e.pos(i)))
					}
					e.mergeStates(s, c, s1, s2)
					// registers redefined on one side (loop headers re-entered by the continuing side) and read
					// after the join must be merged as well
					for k, v1 := range f1.regs {
						if v2, ok := f2.regs[k]; ok && !sameValue(v1, v2) {
							f1.regs[k] = e.mergeRegs(c, v1, v2)
						}
					}
					for k, v2 := range f2.regs {
						if _, ok := f1.regs[k]; !ok {
							f1.regs[k] = v2
						}
					}
					*frp = f1
					mo.k = o1.k
					if o1.k == oReturn {
						mo.ret = e.mergeValue(c, o1.ret, o2.ret)
					} else {
						mo.phis = make([]Value, len(o1.phis))
						for k := range o1.phis {
							mo.phis[k] = e.mergeValue(c, o1.phis[k], o2.phis[k])
						}
					}
				}
				fr = *frp
				if mo.k == oReturn {
					return mo
				}
				// both reached ip
				if ip == stop {
					return mo
				}
				prev, blk = nil, ip
				phis = mo.phis
				if phis == nil {
					phis = []Value{}
				}
			case *ssa.Return:
				var ret Value
				switch len(i.Results) {
				case 0:
				case 1:
					ret = e.get(fr, i.Results[0])
				default:
					t := make(Tuple, len(i.Results))
					for k, r := range i.Results {
						t[k] = e.get(fr, r)
					}
					ret = t
				}
				return outcome{k: oReturn, ret: ret}
			case *ssa.Panic:
				e.H.addPanic(e, s, s.pc, "explicit panic", e.pos(i), fr)
				s.dead = true
				return outcome{k: oDead}
			default:
				e.exec(fr, s, in)
				if s.dead {
					return outcome{k: oDead}
				}
			}
		}
	}
}

func (e *Engine) noteBranch(fr *Frame, i *ssa.If, c *Term) {
	if !fr.harn {
		e.H.taintSite("branch@" + e.pos(i))
	}
	if c.Sec && !fr.harn {
		e.H.addTaint(e, "branch", e.pos(i), fr.fn.String())
	}
}

// get returns the value of an SSA operand.
func (e *Engine) get(fr *Frame, v ssa.Value) Value {
	switch x := v.(type) {
	case *ssa.Const:
		return e.constValue(x)
	case *ssa.Global:
		return ptrTo(e.globalObj(x), 0, e.st.True())
	case *ssa.Function:
		return &FuncV{Fn: x}
	case *ssa.Builtin:
		return &FuncV{Bi: x}
	case *ssa.FreeVar:
		for i, fv := range fr.fn.FreeVars {
			if fv == x {
				return fr.bind[i]
			}
		}
		panic(unsupported("free var not found"))
	}
	r, ok := fr.regs[v]
	if !ok {
		panic(unsupported("use of undefined register %s in %s", v.Name(), fr.fn))
	}
	return r
}

func (e *Engine) constValue(c *ssa.Const) Value {
	t := c.Type()
	if c.Value == nil {
		// zero value / nil
		if b, ok := t.Underlying().(*types.Basic); ok && b.Kind() == types.UntypedNil {
			return nil
		}
		return e.zeroValue(t)
	}
	if s, ok := abstractSort(t); ok && s.K == SInt {
		v, _ := new(big.Int).SetString(c.Value.ExactString(), 10)
		return e.st.IntConst(v)
	}
	switch u := t.Underlying().(type) {
	case *types.Basic:
		switch {
		case u.Info()&types.IsBoolean != 0:
			return e.st.Bool(constant.BoolVal(c.Value))
		case u.Info()&types.IsInteger != 0:
			w, _ := e.typeWidth(t)
			v, ok := new(big.Int).SetString(constant.ToInt(c.Value).ExactString(), 10)
			if !ok {
				panic(unsupported("const %v", c))
			}
			return e.st.BVConst(v, w)
		case u.Info()&types.IsString != 0:
			str := constant.StringVal(c.Value)
			sv := &StrV{Bytes: make([]*Term, len(str))}
			for i := 0; i < len(str); i++ {
				sv.Bytes[i] = e.st.BVu(uint64(str[i]), 8)
			}
			return sv
		}
	}
	panic(unsupported("constant of type %s", t))
}

func (e *Engine) globalObj(g *ssa.Global) *Object {
	if o, ok := e.globals[g]; ok {
		return o
	}
	et := g.Type().(*types.Pointer).Elem()
	var o *Object
	if g.Pkg != nil && e.isRepoPkg(g.Pkg.Pkg.Path()) {
		o = e.allocTyped(g.String(), ObjGlobal, et)
	} else {
		// foreign global: opaque
		o = e.allocTyped(g.String(), ObjGlobal, et)
		if _, ok := et.Underlying().(*types.Interface); ok {
			o.Init = []Value{&Iface{Dyn: e.stubType("extern:" + g.String()), Val: nil}}
		}
	}
	e.globals[g] = o
	return o
}

func (e *Engine) isRepoPkg(path string) bool {
	return strings.HasPrefix(path, "github.com/oasisprotocol/ed25519")
}

// ---------------------------------------------------------------------------
// loads and stores

func (e *Engine) load(s *State, p *Ptr, t types.Type, pos string, fr *Frame) Value {
	if p.View > 1 {
		return e.loadView(s, p, t, pos, fr)
	}
	n := e.cellCount(t)
	agg := e.isAggregate(t)
	if len(p.Alts) == 0 {
		e.H.addPanic(e, s, s.pc, "nil dereference", pos, fr)
		s.dead = true
		return nil
	}
	var res []Value
	for ai := len(p.Alts) - 1; ai >= 0; ai-- {
		a := p.Alts[ai]
		if a.Obj == nil {
			e.H.addPanic(e, s, e.st.And(s.pc, a.G), "nil dereference", pos, fr)
			continue
		}
		var vals []Value
		if a.Obj.Kind == ObjBlob {
			vals = []Value{e.blobByte(a.Obj.Blob, e.st.BVu(uint64(a.Off), e.intw))}
		} else {
			cells := s.cells(a.Obj)
			if a.Off < 0 || a.Off+n > len(cells) {
				// out of range alternative: only reachable through an unchecked path; treat as panic
				e.H.addPanic(e, s, e.st.And(s.pc, a.G), "out-of-object access", pos, fr)
				continue
			}
			vals = cells[a.Off : a.Off+n]
		}
		e.H.noteLoad(a.Obj)
		if res == nil {
			res = make([]Value, n)
			copy(res, vals)
		} else {
			for k := 0; k < n; k++ {
				if !sameValue(res[k], vals[k]) {
					res[k] = e.mergeValue(a.G, vals[k], res[k])
				}
			}
		}
	}
	if res == nil {
		s.dead = true
		return nil
	}
	if agg {
		return &Agg{Elems: res}
	}
	return res[0]
}

func (e *Engine) blobByte(b *Blob, idx *Term) *Term {
	return e.st.UF("blobbyte", BV(8), b.Seq, idx)
}

func (e *Engine) storeVal(s *State, p *Ptr, v Value, t types.Type, pos string, fr *Frame) {
	if p.View > 1 {
		e.storeView(s, p, v, t, pos, fr)
		return
	}
	n := e.cellCount(t)
	var vals []Value
	if a, ok := v.(*Agg); ok {
		vals = a.Elems
	} else {
		if v == nil {
			v = e.zeroLeaf(t)
		}
		vals = []Value{v}
	}
	if len(vals) != n {
		panic(unsupported("store size mismatch %d vs %d for %s", len(vals), n, t))
	}
	if len(p.Alts) == 0 {
		e.H.addPanic(e, s, s.pc, "nil dereference", pos, fr)
		s.dead = true
		return
	}
	for _, a := range p.Alts {
		if a.Obj == nil {
			e.H.addPanic(e, s, e.st.And(s.pc, a.G), "nil dereference", pos, fr)
			continue
		}
		e.H.noteStore(e, s, a, pos, fr)
		if a.Obj.Kind == ObjBlob {
			continue
		}
		cells := s.cellsW(a.Obj)
		if a.Off < 0 || a.Off+n > len(cells) {
			e.H.addPanic(e, s, e.st.And(s.pc, a.G), "out-of-object access", pos, fr)
			continue
		}
		for k := 0; k < n; k++ {
			if a.G.IsTrue() {
				cells[a.Off+k] = vals[k]
			} else {
				cells[a.Off+k] = e.mergeValue(a.G, vals[k], cells[a.Off+k])
			}
		}
	}
}

// ---------------------------------------------------------------------------

func (e *Engine) exec(fr *Frame, s *State, in ssa.Instruction) {
	defer func() {
		if r := recover(); r != nil {
			if _, ok := r.(*Unsupported); ok {
				panic(r)
			}
			if _, ok := r.(abortHarness); ok {
				panic(r)
			}
			if a, ok := r.(annotated); ok {
				panic(a)
			}
			panic(annotated{fmt.Sprintf("%v [at %s: %s]", r, e.pos(in), in.String())})
		}
	}()
	switch i := in.(type) {
	case *ssa.DebugRef:
	case *ssa.Alloc:
		kind := ObjLocal
		if fr.harn {
			kind = ObjHarness
		}
		et := i.Type().(*types.Pointer).Elem()
		o := e.allocTyped(i.Comment, kind, et)
		o.owner = s
		s.born = append(s.born, o)
		fr.regs[i] = ptrTo(o, 0, e.st.True())
	case *ssa.UnOp:
		fr.regs[i] = e.unop(fr, s, i)
	case *ssa.BinOp:
		fr.regs[i] = e.binop(fr, s, i.Op, e.get(fr, i.X), e.get(fr, i.Y), i.X.Type(), i.Y.Type(), e.pos(i))
	case *ssa.Convert:
		fr.regs[i] = e.convert(fr, s, e.get(fr, i.X), i.X.Type(), i.Type(), e.pos(i))
	case *ssa.ChangeType:
		fr.regs[i] = e.get(fr, i.X)
	case *ssa.ChangeInterface:
		fr.regs[i] = e.get(fr, i.X)
	case *ssa.MakeInterface:
		fr.regs[i] = &Iface{Dyn: i.X.Type(), Val: e.get(fr, i.X)}
	case *ssa.TypeAssert:
		fr.regs[i] = e.typeAssert(fr, s, i)
	case *ssa.Extract:
		t := e.get(fr, i.Tuple).(Tuple)
		fr.regs[i] = t[i.Index]
	case *ssa.Field:
		a := e.get(fr, i.X).(*Agg)
		st := i.X.Type().Underlying().(*types.Struct)
		off := e.fieldOffset(st, i.Field)
		n := e.cellCount(st.Field(i.Field).Type())
		if e.isAggregate(st.Field(i.Field).Type()) {
			fr.regs[i] = &Agg{Elems: a.Elems[off : off+n]}
		} else {
			fr.regs[i] = a.Elems[off]
		}
	case *ssa.FieldAddr:
		p := e.get(fr, i.X).(*Ptr)
		st := i.X.Type().Underlying().(*types.Pointer).Elem().Underlying().(*types.Struct)
		if len(p.Alts) == 0 {
			e.H.addPanic(e, s, s.pc, "nil dereference", e.pos(i), fr)
			s.dead = true
			return
		}
		fr.regs[i] = e.ptrAdd(p, e.fieldOffset(st, i.Field))
	case *ssa.Index:
		e.execIndex(fr, s, i)
	case *ssa.IndexAddr:
		e.execIndexAddr(fr, s, i)
	case *ssa.Slice:
		e.execSlice(fr, s, i)
	case *ssa.MakeSlice:
		ln := e.get(fr, i.Len).(*Term)
		cp := e.get(fr, i.Cap).(*Term)
		if !ln.IsConst() || !cp.IsConst() {
			panic(unsupported("make with symbolic length at %s", e.pos(i)))
		}
		et := i.Type().Underlying().(*types.Slice).Elem()
		n := int(cp.Val.Int64())
		arr := types.NewArray(et, int64(n))
		kind := ObjLocal
		if fr.harn {
			kind = ObjHarness
		}
		o := e.allocTyped("make", kind, arr)
		o.owner = s
		s.born = append(s.born, o)
		fr.regs[i] = &SliceV{P: ptrTo(o, 0, e.st.True()), Len: e.st.BVConst(ln.Val, e.intw), Cap: e.st.BVConst(cp.Val, e.intw)}
	case *ssa.MakeClosure:
		c := &Closure{Fn: i.Fn.(*ssa.Function)}
		for _, b := range i.Bindings {
			c.Bind = append(c.Bind, e.get(fr, b))
		}
		fr.regs[i] = c
	case *ssa.Store:
		p := e.get(fr, i.Addr).(*Ptr)
		v := e.get(fr, i.Val)
		if !fr.harn {
			e.H.storeSite(e.pos(i))
		}
		e.storeVal(s, p, v, i.Val.Type(), e.pos(i), fr)
	case *ssa.Call:
		r := e.execCall(fr, s, i)
		if !s.dead {
			fr.regs[i] = r
		}
	default:
		panic(unsupported("instruction %T at %s", in, e.pos(in)))
	}
}

func (e *Engine) unop(fr *Frame, s *State, i *ssa.UnOp) Value {
	x := e.get(fr, i.X)
	switch i.Op {
	case token.MUL:
		p, ok := x.(*Ptr)
		if !ok {
			panic(unsupported("load through %T", x))
		}
		v := e.load(s, p, i.Type(), e.pos(i), fr)
		if t, isT := v.(*Term); isT && t.S.K == SInt && !fr.harn {
			// the code under test reads a machine word out of an object that currently holds an abstract
			// (field-level) value: what it sees depends on the representation, not on the value.  The read
			// yields an unconstrained word (over-approximation) and is noted in the evidence.
			if b, isB := i.Type().Underlying().(*types.Basic); isB && b.Info()&types.IsInteger != 0 {
				w, _ := e.typeWidth(i.Type())
				e.H.rawReads++
				e.H.notes = append(e.H.notes, "raw word read of an abstract value at "+e.pos(i)+" (treated as an arbitrary word)")
				return e.st.Sym(fmt.Sprintf("rawword_%d", e.H.nextSym()), BV(w))
			}
		}
		return v
	case token.SUB:
		t := x.(*Term)
		if t.S.K == SInt {
			return e.st.INeg(t)
		}
		return e.st.BVNeg(t)
	case token.XOR:
		return e.st.BVNot(x.(*Term))
	case token.NOT:
		return e.st.Not(x.(*Term))
	}
	panic(unsupported("unop %s", i.Op))
}

func (e *Engine) binop(fr *Frame, s *State, op token.Token, x, y Value, xt, yt types.Type, pos string) Value {
	// comparisons on non-scalars
	switch op {
	case token.EQL, token.NEQ:
		r := e.valueEq(x, y, xt)
		if op == token.NEQ {
			r = e.st.Not(r)
		}
		return r
	}
	if sx, ok := x.(*StrV); ok {
		sy := y.(*StrV)
		if op == token.ADD {
			if sx.Blob == nil && sy.Blob == nil && !sx.Opaque && !sy.Opaque {
				return &StrV{Bytes: append(append([]*Term{}, sx.Bytes...), sy.Bytes...)}
			}
			return &StrV{Opaque: true}
		}
		panic(unsupported("string op %s", op))
	}
	a, ok1 := x.(*Term)
	b, ok2 := y.(*Term)
	if !ok1 || !ok2 {
		panic(unsupported("binop %s on %T,%T at %s", op, x, y, pos))
	}
	if a.S.K == SBool {
		switch op {
		case token.AND, token.LAND:
			return e.st.And(a, b)
		case token.OR, token.LOR:
			return e.st.Or(a, b)
		}
		panic(unsupported("bool binop %s", op))
	}
	_, signed := e.typeWidth(xt)
	switch op {
	case token.ADD:
		return e.st.BVAdd(a, b)
	case token.SUB:
		return e.st.BVSub(a, b)
	case token.MUL:
		return e.st.BVMul(a, b)
	case token.QUO, token.REM:
		if !b.IsConst() {
			if b.Sec || a.Sec {
				e.H.addTaint(e, "division", pos, fr.fn.String())
			}
			e.H.addPanic(e, s, e.st.And(s.pc, e.st.Eq(b, e.st.BVu(0, b.S.W))), "division by zero", pos, fr)
		} else if b.Val.Sign() == 0 {
			e.H.addPanic(e, s, s.pc, "division by zero", pos, fr)
			s.dead = true
			return nil
		}
		if op == token.QUO {
			if signed {
				return e.st.BVSDiv(a, b)
			}
			return e.st.BVUDiv(a, b)
		}
		if signed {
			return e.st.BVSRem(a, b)
		}
		return e.st.BVURem(a, b)
	case token.AND:
		return e.st.BVAnd(a, b)
	case token.OR:
		return e.st.BVOr(a, b)
	case token.XOR:
		return e.st.BVXor(a, b)
	case token.AND_NOT:
		return e.st.BVAnd(a, e.st.BVNot(b))
	case token.SHL, token.SHR:
		_, ysigned := e.typeWidth(yt)
		w := a.S.W
		if ysigned && !b.IsConst() {
			e.H.addPanic(e, s, e.st.And(s.pc, e.st.BVSlt(b, e.st.BVu(0, b.S.W))), "negative shift", pos, fr)
		}
		if b.Sec && !b.IsConst() {
			e.H.addTaint(e, "shift amount", pos, fr.fn.String())
		}
		var cnt *Term
		var big_ *Term
		switch {
		case b.S.W == w:
			cnt = b
		case b.S.W < w:
			cnt = e.st.Zext(b, w-b.S.W)
		default:
			cnt = e.st.Extract(b, w-1, 0)
			big_ = e.st.Not(e.st.BVUlt(b, e.st.BVu(uint64(w), b.S.W)))
		}
		var r *Term
		if op == token.SHL {
			r = e.st.BVShl(a, cnt)
		} else if signed {
			r = e.st.BVAshr(a, cnt)
		} else {
			r = e.st.BVLshr(a, cnt)
		}
		if big_ != nil && !big_.IsFalse() {
			var fill *Term
			if op == token.SHR && signed {
				fill = e.st.BVAshr(a, e.st.BVu(uint64(w-1), w))
			} else {
				fill = e.st.BVu(0, w)
			}
			r = e.st.Ite(big_, fill, r)
		}
		return r
	case token.LSS:
		if signed {
			return e.st.BVSlt(a, b)
		}
		return e.st.BVUlt(a, b)
	case token.LEQ:
		if signed {
			return e.st.BVSle(a, b)
		}
		return e.st.BVUle(a, b)
	case token.GTR:
		if signed {
			return e.st.BVSlt(b, a)
		}
		return e.st.BVUlt(b, a)
	case token.GEQ:
		if signed {
			return e.st.BVSle(b, a)
		}
		return e.st.BVUle(b, a)
	}
	panic(unsupported("binop %s", op))
}

func (e *Engine) valueEq(x, y Value, t types.Type) *Term {
	if x == nil && y == nil {
		return e.st.True()
	}
	switch a := x.(type) {
	case *Term:
		b, ok := y.(*Term)
		if !ok {
			panic(unsupported("eq term/%T", y))
		}
		return e.st.Eq(a, b)
	case *Ptr:
		var b *Ptr
		if y == nil {
			b = &Ptr{}
		} else {
			b = y.(*Ptr)
		}
		return e.ptrEq(a, b)
	case *Iface:
		if y == nil {
			return e.ifaceNil(a)
		}
		b := y.(*Iface)
		if b.Dyn == nil && b.Nil == nil {
			return e.ifaceNil(a)
		}
		if a.Dyn == nil && a.Nil == nil {
			return e.ifaceNil(b)
		}
		if a == b {
			return e.st.True()
		}
		// a package-level error value of a foreign package (io.EOF, io.ErrUnexpectedEOF, ...) has an identity of
		// its own: a constant derived from its name
		externID := func(x *Iface) *Term {
			if x.Val != nil || x.Dyn == nil {
				return nil
			}
			name := x.Dyn.String()
			if i := strings.Index(name, "extern:"); i >= 0 {
				h := uint64(1469598103934665603)
				for _, c := range []byte(name[i:]) {
					h = (h ^ uint64(c)) * 1099511628211
				}
				return e.st.BVu(0x80000000|(h&0x7fffffff), 32)
			}
			return nil
		}
		if id := externID(b); id != nil {
			if at, ok := a.Val.(*Term); ok && at.S == id.S {
				return e.st.And(e.st.Not(e.ifaceNil(a)), e.st.Eq(at, id))
			}
			if id2 := externID(a); id2 != nil {
				return e.st.Eq(id, id2)
			}
		}
		if id := externID(a); id != nil {
			if bt, ok := b.Val.(*Term); ok && bt.S == id.S {
				return e.st.And(e.st.Not(e.ifaceNil(b)), e.st.Eq(bt, id))
			}
		}
		if at, ok := a.Val.(*Term); ok && a.Dyn == b.Dyn {
			if bt, ok2 := b.Val.(*Term); ok2 && at.S == bt.S {
				// two opaque error values: equal iff both nil or both non-nil with the same identity
				an, bn := e.ifaceNil(a), e.ifaceNil(b)
				return e.st.Or(e.st.And(an, bn), e.st.And(e.st.Not(an), e.st.Not(bn), e.st.Eq(at, bt)))
			}
		}
		panic(unsupported("interface comparison of %v (%T) with %v (%T)", a.Dyn, a.Val, b.Dyn, b.Val))
	case *SliceV:
		if y == nil {
			return e.ptrEq(a.P, &Ptr{})
		}
		if b, ok := y.(*SliceV); ok && len(b.P.Alts) == 0 {
			return e.ptrEq(a.P, &Ptr{})
		}
		panic(unsupported("slice comparison"))
	case *Agg:
		b := y.(*Agg)
		r := e.st.True()
		for i := range a.Elems {
			r = e.st.And(r, e.valueEq(a.Elems[i], b.Elems[i], nil))
		}
		return r
	case *StrV:
		b := y.(*StrV)
		if a.Blob != nil || b.Blob != nil || a.Opaque || b.Opaque {
			if a == b {
				return e.st.True()
			}
			panic(unsupported("opaque string comparison"))
		}
		if len(a.Bytes) != len(b.Bytes) {
			return e.st.False()
		}
		r := e.st.True()
		for i := range a.Bytes {
			r = e.st.And(r, e.st.Eq(a.Bytes[i], b.Bytes[i]))
		}
		return r
	case *FuncV:
		if y == nil {
			return e.st.Bool(a.Fn == nil && a.Bi == nil)
		}
	case *Closure:
		if y == nil {
			return e.st.False()
		}
	case nil:
		return e.valueEq(y, x, t)
	}
	panic(unsupported("comparison of %T and %T", x, y))
}

func (e *Engine) ptrEq(a, b *Ptr) *Term {
	aa, ba := a.Alts, b.Alts
	if len(aa) == 0 {
		aa = []PtrAlt{{G: e.st.True()}}
	}
	if len(ba) == 0 {
		ba = []PtrAlt{{G: e.st.True()}}
	}
	r := e.st.False()
	for _, x := range aa {
		for _, y := range ba {
			if x.Obj == y.Obj && x.Off == y.Off {
				r = e.st.Or(r, e.st.And(x.G, y.G))
			}
		}
	}
	return r
}

func (e *Engine) convert(fr *Frame, s *State, x Value, from, to types.Type, pos string) Value {
	if ss, ok := abstractSort(to); ok && ss.K == SInt {
		t := x.(*Term)
		if t.S.K == SInt {
			return t
		}
		_, signed := e.typeWidth(from)
		if signed {
			panic(unsupported("signed to vZ conversion"))
		}
		return e.st.BV2Nat(t)
	}
	fu, tu := from.Underlying(), to.Underlying()
	if fb, ok := fu.(*types.Basic); ok {
		if tb, ok := tu.(*types.Basic); ok {
			if fb.Info()&types.IsInteger != 0 && tb.Info()&types.IsInteger != 0 {
				t := x.(*Term)
				fw, fs := e.typeWidth(from)
				tw, _ := e.typeWidth(to)
				_ = fw
				switch {
				case tw == t.S.W:
					return t
				case tw < t.S.W:
					return e.st.Extract(t, tw-1, 0)
				case fs:
					return e.st.Sext(t, tw-t.S.W)
				default:
					return e.st.Zext(t, tw-t.S.W)
				}
			}
			if fb.Info()&types.IsInteger != 0 && tb.Info()&types.IsString != 0 {
				t := x.(*Term)
				if t.IsConst() && t.Val.Cmp(big.NewInt(128)) < 0 {
					return &StrV{Bytes: []*Term{e.st.BVu(t.Val.Uint64(), 8)}}
				}
				panic(unsupported("string(rune) of a symbolic or non-ASCII value at %s", pos))
			}
			if fb.Kind() == types.UnsafePointer && tb.Kind() == types.Uintptr {
				panic(unsupported("uintptr(unsafe.Pointer) at %s", pos))
			}
			if fb.Info()&types.IsString != 0 && tb.Info()&types.IsString != 0 {
				return x
			}
		}
		// string -> []byte
		if fb.Info()&types.IsString != 0 {
			if _, ok := tu.(*types.Slice); ok {
				sv := x.(*StrV)
				if sv.Blob != nil {
					// fresh copy, same content: a new blob object sharing the sequence
					o := e.newObject("strcopy:"+sv.Blob.Name, ObjBlob, nil, 0, nil)
					o.Blob = sv.Blob
					o.Fresh = true
					return &SliceV{P: ptrTo(o, 0, e.st.True()), Len: sv.Blob.Len, Cap: sv.Blob.Len}
				}
				if sv.Opaque {
					panic(unsupported("[]byte(opaque string)"))
				}
				arr := types.NewArray(types.Typ[types.Uint8], int64(len(sv.Bytes)))
				o := e.allocTyped("strbytes", ObjLocal, arr)
				o.owner = s
				s.born = append(s.born, o)
				cells := s.cellsW(o)
				for k, b := range sv.Bytes {
					cells[k] = b
				}
				n := e.st.BVu(uint64(len(sv.Bytes)), e.intw)
				if len(sv.Bytes) == 0 {
					// Go: []byte("") is non-nil empty slice; keep pointer
				}
				return &SliceV{P: ptrTo(o, 0, e.st.True()), Len: n, Cap: n}
			}
		}
		if fb.Kind() == types.UnsafePointer {
			p := x.(*Ptr)
			if tp, ok := tu.(*types.Pointer); ok && len(p.Alts) > 0 && p.Alts[0].Obj != nil && p.Alts[0].Obj.Typ != nil {
				tw := e.leafIntWidth(tp.Elem())
				ow := e.leafIntWidth(p.Alts[0].Obj.Typ)
				if tw == 0 || ow == 0 {
					panic(unsupported("unsafe pointer conversion to %s at %s", to, pos))
				}
				if tw != ow {
					if ow != 8 || tw%8 != 0 {
						panic(unsupported("unsafe reinterpretation %d->%d bits at %s", ow, tw, pos))
					}
					return &Ptr{Alts: p.Alts, View: tw / 8}
				}
			}
			return x
		}
	}
	if _, ok := fu.(*types.Pointer); ok {
		if tb, ok := tu.(*types.Basic); ok && tb.Kind() == types.UnsafePointer {
			return x
		}
	}
	if _, ok := fu.(*types.Slice); ok {
		if tb, ok := tu.(*types.Basic); ok && tb.Info()&types.IsString != 0 {
			// []byte -> string
			sl := x.(*SliceV)
			if sl.Len.IsConst() {
				n := int(sl.Len.Val.Int64())
				sv := &StrV{Bytes: make([]*Term, n)}
				for k := 0; k < n; k++ {
					sv.Bytes[k] = e.load(s, e.ptrAdd(sl.P, k), types.Typ[types.Uint8], pos, fr).(*Term)
				}
				return sv
			}
			if len(sl.P.Alts) == 1 && sl.P.Alts[0].Obj.Kind == ObjBlob && sl.P.Alts[0].Off == 0 {
				return &StrV{Blob: sl.P.Alts[0].Obj.Blob}
			}
		}
	}
	panic(unsupported("convert %s -> %s at %s", from, to, pos))
}

func (e *Engine) typeAssert(fr *Frame, s *State, i *ssa.TypeAssert) Value {
	x := e.get(fr, i.X).(*Iface)
	var ok *Term
	var val Value
	if _, isIface := i.AssertedType.Underlying().(*types.Interface); isIface {
		if x.Dyn == nil {
			ok = e.st.False()
		} else {
			impl := types.Implements(x.Dyn, i.AssertedType.Underlying().(*types.Interface))
			ok = e.st.And(e.st.Bool(impl), e.st.Not(e.ifaceNil(x)))
		}
		val = x
	} else {
		if x.Dyn != nil && types.Identical(x.Dyn, i.AssertedType) {
			ok = e.st.Not(e.ifaceNil(x))
			val = x.Val
		} else {
			ok = e.st.False()
			val = e.zeroValue(i.AssertedType)
		}
	}
	if i.CommaOk {
		if val == nil {
			val = e.zeroValue(i.AssertedType)
		}
		return Tuple{val, ok}
	}
	if !ok.IsTrue() {
		e.H.addPanic(e, s, e.st.And(s.pc, e.st.Not(ok)), "type assertion", e.pos(i), fr)
		if ok.IsFalse() {
			s.dead = true
			return nil
		}
	}
	return val
}

// boundsCheck emits the panic obligation for !(cond) and returns false if the access is certainly invalid.
func (e *Engine) boundsCheck(fr *Frame, s *State, ok *Term, kind, pos string) bool {
	if ok.IsTrue() {
		return true
	}
	e.H.addPanic(e, s, e.st.And(s.pc, e.st.Not(ok)), kind, pos, fr)
	if ok.IsFalse() {
		s.dead = true
		return false
	}
	// continue under the assumption that the check passed
	s.pc = e.st.And(s.pc, ok)
	return true
}

func (e *Engine) idxTerm(v Value, t types.Type) *Term {
	x := v.(*Term)
	w, signed := e.typeWidth(t)
	_ = w
	if x.S.W < e.intw {
		if signed {
			return e.st.Sext(x, e.intw-x.S.W)
		}
		return e.st.Zext(x, e.intw-x.S.W)
	}
	if x.S.W > e.intw {
		return e.st.Extract(x, e.intw-1, 0)
	}
	return x
}

func (e *Engine) execIndexAddr(fr *Frame, s *State, i *ssa.IndexAddr) {
	x := e.get(fr, i.X)
	idx := e.idxTerm(e.get(fr, i.Index), i.Index.Type())
	if !idx.IsConst() && !fr.harn {
		e.H.taintSite("index@" + e.pos(i))
	}
	if idx.Sec && !idx.IsConst() && !fr.harn {
		e.H.addTaint(e, "memory index", e.pos(i), fr.fn.String())
	}
	switch xt := i.X.Type().Underlying().(type) {
	case *types.Pointer:
		at := xt.Elem().Underlying().(*types.Array)
		p := x.(*Ptr)
		if len(p.Alts) == 0 {
			e.H.addPanic(e, s, s.pc, "nil dereference", e.pos(i), fr)
			s.dead = true
			return
		}
		n := int(at.Len())
		ok := e.st.BVUlt(idx, e.st.BVu(uint64(n), e.intw))
		if !e.boundsCheck(fr, s, ok, "index out of range", e.pos(i)) {
			return
		}
		fr.regs[i] = e.ptrIndex(p, idx, e.cellCount(at.Elem()), n)
	case *types.Slice:
		sl := x.(*SliceV)
		ok := e.st.BVUlt(idx, sl.Len)
		if !e.boundsCheck(fr, s, ok, "index out of range", e.pos(i)) {
			return
		}
		n := e.maxIndexFan
		if sl.Len.IsConst() {
			n = int(sl.Len.Val.Int64())
		}
		fr.regs[i] = e.ptrIndex(sl.P, idx, e.cellCount(xt.Elem()), n)
	default:
		panic(unsupported("IndexAddr on %s", i.X.Type()))
	}
}

func (e *Engine) execIndex(fr *Frame, s *State, i *ssa.Index) {
	x := e.get(fr, i.X)
	idx := e.idxTerm(e.get(fr, i.Index), i.Index.Type())
	switch xt := i.X.Type().Underlying().(type) {
	case *types.Array:
		a := x.(*Agg)
		n := int(xt.Len())
		ec := e.cellCount(xt.Elem())
		ok := e.st.BVUlt(idx, e.st.BVu(uint64(n), e.intw))
		if !e.boundsCheck(fr, s, ok, "index out of range", e.pos(i)) {
			return
		}
		alts := e.enumIndex(idx, n)
		var res []Value
		for k := len(alts) - 1; k >= 0; k-- {
			vals := a.Elems[alts[k].k*ec : (alts[k].k+1)*ec]
			if res == nil {
				res = append([]Value{}, vals...)
			} else {
				for j := range res {
					res[j] = e.mergeValue(alts[k].g, vals[j], res[j])
				}
			}
		}
		if e.isAggregate(xt.Elem()) {
			fr.regs[i] = &Agg{Elems: res}
		} else {
			fr.regs[i] = res[0]
		}
	case *types.Basic: // string
		sv := x.(*StrV)
		if sv.Blob != nil || sv.Opaque {
			panic(unsupported("index of opaque string"))
		}
		ok := e.st.BVUlt(idx, e.st.BVu(uint64(len(sv.Bytes)), e.intw))
		if !e.boundsCheck(fr, s, ok, "index out of range", e.pos(i)) {
			return
		}
		alts := e.enumIndex(idx, len(sv.Bytes))
		var res *Term
		for k := len(alts) - 1; k >= 0; k-- {
			if res == nil {
				res = sv.Bytes[alts[k].k]
			} else {
				res = e.st.Ite(alts[k].g, sv.Bytes[alts[k].k], res)
			}
		}
		fr.regs[i] = res
	default:
		panic(unsupported("Index on %s", i.X.Type()))
	}
}

func (e *Engine) execSlice(fr *Frame, s *State, i *ssa.Slice) {
	x := e.get(fr, i.X)
	var lo, hi, mx *Term
	if i.Low != nil {
		lo = e.idxTerm(e.get(fr, i.Low), i.Low.Type())
	} else {
		lo = e.st.BVu(0, e.intw)
	}
	if i.High != nil {
		hi = e.idxTerm(e.get(fr, i.High), i.High.Type())
	}
	if i.Max != nil {
		mx = e.idxTerm(e.get(fr, i.Max), i.Max.Type())
	}
	var base *Ptr
	var ln, cp *Term
	var stride int
	isString := false
	switch xt := i.X.Type().Underlying().(type) {
	case *types.Pointer:
		at := xt.Elem().Underlying().(*types.Array)
		base = x.(*Ptr)
		if len(base.Alts) == 0 {
			e.H.addPanic(e, s, s.pc, "nil dereference", e.pos(i), fr)
			s.dead = true
			return
		}
		ln = e.st.BVu(uint64(at.Len()), e.intw)
		cp = ln
		stride = e.cellCount(at.Elem())
	case *types.Slice:
		sl := x.(*SliceV)
		base, ln, cp = sl.P, sl.Len, sl.Cap
		stride = e.cellCount(xt.Elem())
	case *types.Basic:
		isString = true
		sv := x.(*StrV)
		if sv.Blob != nil || sv.Opaque {
			panic(unsupported("slice of opaque string"))
		}
		n := len(sv.Bytes)
		if hi == nil {
			hi = e.st.BVu(uint64(n), e.intw)
		}
		if !lo.IsConst() || !hi.IsConst() {
			panic(unsupported("symbolic string slice"))
		}
		l, h := int(lo.Val.Int64()), int(hi.Val.Int64())
		if l < 0 || h > n || l > h {
			e.H.addPanic(e, s, s.pc, "slice bounds out of range", e.pos(i), fr)
			s.dead = true
			return
		}
		fr.regs[i] = &StrV{Bytes: sv.Bytes[l:h]}
		return
	default:
		panic(unsupported("Slice on %s", i.X.Type()))
	}
	_ = isString
	if hi == nil {
		hi = ln
	}
	lim := cp
	if mx != nil {
		lim = mx
		ok := e.st.BVUle(mx, cp)
		if !e.boundsCheck(fr, s, ok, "slice bounds out of range", e.pos(i)) {
			return
		}
	}
	ok := e.st.And(e.st.BVUle(hi, lim), e.st.BVUle(lo, hi))
	if !e.boundsCheck(fr, s, ok, "slice bounds out of range", e.pos(i)) {
		return
	}
	var np *Ptr
	if lo.IsConst() {
		np = e.ptrAdd(base, int(lo.Val.Int64())*stride)
	} else {
		n := e.maxIndexFan
		if cp.IsConst() {
			n = int(cp.Val.Int64()) + 1
		}
		np = e.ptrIndex(base, lo, stride, n)
	}
	fr.regs[i] = &SliceV{P: np, Len: e.st.BVSub(hi, lo), Cap: e.st.BVSub(lim, lo)}
}

func (e *Engine) stubType(name string) types.Type {
	if t, ok := e.stubTypes[name]; ok {
		return t
	}
	tn := types.NewTypeName(token.NoPos, nil, name, nil)
	t := types.NewNamed(tn, types.NewStruct(nil, nil), nil)
	e.stubTypes[name] = t
	return t
}

// loadView / storeView implement word access through an unsafe byte-array reinterpretation.
func (e *Engine) loadView(s *State, p *Ptr, t types.Type, pos string, fr *Frame) Value {
	n := e.cellCount(t)
	raw := &Ptr{Alts: p.Alts}
	out := make([]Value, n)
	for k := 0; k < n; k++ {
		var w *Term
		for b := 0; b < p.View; b++ {
			c := e.load(s, e.ptrAdd(raw, k*p.View+b), leafT, pos, fr)
			if s.dead {
				return nil
			}
			ct := c.(*Term)
			if ct.S != BV(8) {
				panic(unsupported("viewed load of non-byte cell at %s", pos))
			}
			if w == nil {
				w = ct
			} else {
				w = e.st.Concat(ct, w)
			}
		}
		out[k] = w
	}
	if e.isAggregate(t) {
		return &Agg{Elems: out}
	}
	return out[0]
}

func (e *Engine) storeView(s *State, p *Ptr, v Value, t types.Type, pos string, fr *Frame) {
	var vals []Value
	if a, ok := v.(*Agg); ok {
		vals = a.Elems
	} else {
		vals = []Value{v}
	}
	raw := &Ptr{Alts: p.Alts}
	for k, x := range vals {
		w := x.(*Term)
		if w.S.W != 8*p.View {
			panic(unsupported("viewed store width mismatch at %s", pos))
		}
		for b := 0; b < p.View; b++ {
			e.storeVal(s, e.ptrAdd(raw, k*p.View+b), e.st.Extract(w, 8*b+7, 8*b), leafT, pos, fr)
		}
	}
}

// leafIntWidth returns the bit width of the integer leaf type of t (arrays of ints), or 0.
func (e *Engine) leafIntWidth(t types.Type) int {
	switch u := t.Underlying().(type) {
	case *types.Array:
		return e.leafIntWidth(u.Elem())
	case *types.Basic:
		if u.Info()&types.IsInteger != 0 {
			w, _ := e.typeWidth(t)
			return w
		}
	}
	return 0
}

func (e *Engine) leafWidthAny(t types.Type) int {
	switch u := t.Underlying().(type) {
	case *types.Array:
		return e.leafWidthAny(u.Elem())
	case *types.Struct:
		w := -1
		for i := 0; i < u.NumFields(); i++ {
			fw := e.leafWidthAny(u.Field(i).Type())
			if w >= 0 && fw != w {
				return 0
			}
			w = fw
		}
		if w < 0 {
			return 0
		}
		return w
	case *types.Basic:
		if u.Info()&types.IsInteger != 0 {
			w, _ := e.typeWidth(t)
			return w
		}
	}
	return 0
}

// mergeRegs merges two register values; values that cannot be merged (and therefore must not be read after
// the join) become poison.
func (e *Engine) mergeRegs(c *Term, a, b Value) (r Value) {
	defer func() {
		if x := recover(); x != nil {
			if _, ok := x.(*Unsupported); ok {
				r = &Poison{Why: "register values that cannot be merged"}
				return
			}
			panic(x)
		}
	}()
	return e.mergeValue(c, a, b)
}
