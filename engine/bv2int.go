package main

// BV -> Int lifting of obligations ("D_INT").  The arithmetic kernels (carry
// chains, column sums of limb products, Barrett) are linear or polynomial
// identities that bit-blasting cannot decide but integer solvers can.  Every
// bit-vector term is translated to an integer expression denoting its unsigned
// value.
//
// Integer expressions are kept in a linear normal form over atoms (integer
// variables, monomials of atoms, and floor-division atoms q(L, m) with constant
// m); "mod" is eliminated in favour of "div" (L mod m = L - m q(L, m)) and
// multiples of m are pulled out of q (q(L + m T, m) = q(L, m) + T).  With these
// two rules the (hi, lo) word pairs produced by bits.Mul64 / bits.Add64 chains,
// the splices (hi << k) | (lo >> (64-k)) and the masks recombine into one wide
// integer by plain linear cancellation -- no pattern matching on the code.
//
// A wrapping operation is emitted as the exact integer operation only when
// interval arithmetic shows it cannot wrap; every such decision is recorded as a
// side condition and discharged by the solver as its own obligation (the lifted
// forms are exact provided all side conditions hold, by induction on term
// depth).  Bitwise operations on two symbolic operands (xor-selects) are not
// lifted: the obligation then stays in BV.

import (
	"fmt"
	"math/big"
	"os"
	"sort"
)

// ---- linear normal form ----

type lin struct {
	c     *big.Int
	terms map[int]*linTerm // by atom ID
}

type linTerm struct {
	k    *big.Int
	atom *Term
}

func linConst(v *big.Int) *lin { return &lin{c: new(big.Int).Set(v), terms: map[int]*linTerm{}} }
func linAtom(a *Term) *lin {
	return &lin{c: new(big.Int), terms: map[int]*linTerm{a.ID: {k: big.NewInt(1), atom: a}}}
}
func (l *lin) isConst() bool { return len(l.terms) == 0 }
func (l *lin) clone() *lin {
	r := &lin{c: new(big.Int).Set(l.c), terms: make(map[int]*linTerm, len(l.terms))}
	for id, t := range l.terms {
		r.terms[id] = &linTerm{k: new(big.Int).Set(t.k), atom: t.atom}
	}
	return r
}
func (l *lin) addScaled(o *lin, s *big.Int) *lin {
	r := l.clone()
	r.c.Add(r.c, new(big.Int).Mul(o.c, s))
	for id, t := range o.terms {
		k := new(big.Int).Mul(t.k, s)
		if e, ok := r.terms[id]; ok {
			e.k.Add(e.k, k)
			if e.k.Sign() == 0 {
				delete(r.terms, id)
			}
		} else if k.Sign() != 0 {
			r.terms[id] = &linTerm{k: k, atom: t.atom}
		}
	}
	return r
}
func (l *lin) add(o *lin) *lin { return l.addScaled(o, bigOne) }
func (l *lin) sub(o *lin) *lin { return l.addScaled(o, big.NewInt(-1)) }
func (l *lin) scale(s *big.Int) *lin {
	return linConst(new(big.Int)).addScaled(l, s)
}
func (l *lin) sorted() []*linTerm {
	out := make([]*linTerm, 0, len(l.terms))
	for _, t := range l.terms {
		out = append(out, t)
	}
	sort.Slice(out, func(i, j int) bool { return out[i].atom.ID < out[j].atom.ID })
	return out
}

type b2i struct {
	noNest bool // disable the nested-division rewrite (VERIF_NO_NEST=1)

	st    *Store
	ub    map[*Term]*big.Int // upper bounds of BV symbols from hypotheses
	cache map[int]*liftRes
	vars  map[*Term]*Term // BV sym -> Int sym
	ok    bool
	why   string
	side  []*Term // no-wrap side conditions (Bool over Int)
	sideK map[int]bool
	monos map[int]*Term // monomial atoms created
	aiv   map[int][2]*big.Int // atom intervals
	bcache map[int]*Term
	known  map[int][2]*big.Int // intervals of particular linear forms (residues)
	rhos   map[string]*Term
	abstractMonos bool
	noInv  bool // lifting the defining hypothesis of an inverse pair: no rewriting
	factors map[int][]*Term
	defs   []*Term
}

type liftRes struct {
	e      *lin
	lo, hi *big.Int
	tz     int
}

func pow2(k int) *big.Int { return new(big.Int).Lsh(bigOne, uint(k)) }

func (x *b2i) fail(why string) *liftRes {
	if x.ok {
		x.why = why
	}
	x.ok = false
	return &liftRes{e: linConst(big.NewInt(0)), lo: big.NewInt(0), hi: big.NewInt(0)}
}

// term converts a linear form to a Term (canonical order).
func (x *b2i) term(l *lin) *Term {
	st := x.st
	var parts []*Term
	for _, t := range l.sorted() {
		if t.k.Cmp(bigOne) == 0 {
			parts = append(parts, t.atom)
		} else {
			parts = append(parts, st.mk(OIMul, IntSort, []*Term{st.IntConst(t.k), t.atom}, nil, "", 0, 0))
		}
	}
	if l.c.Sign() != 0 || len(parts) == 0 {
		parts = append(parts, st.IntConst(l.c))
	}
	if len(parts) == 1 {
		return parts[0]
	}
	return st.mk(OIAdd, IntSort, parts, nil, "", 0, 0)
}

func (x *b2i) atomIv(a *Term) (lo, hi *big.Int) {
	if v, ok := x.aiv[a.ID]; ok {
		return v[0], v[1]
	}
	return nil, nil
}

// interval of a linear form from atom intervals (may be loose); ok=false if an atom has no interval
func (x *b2i) linIv(l *lin) (*big.Int, *big.Int, bool) {
	if len(x.known) > 0 && !l.isConst() {
		if iv, ok := x.known[x.term(l).ID]; ok {
			return iv[0], iv[1], true
		}
	}
	lo, hi := new(big.Int).Set(l.c), new(big.Int).Set(l.c)
	for _, t := range l.terms {
		alo, ahi := x.atomIv(t.atom)
		if alo == nil {
			return nil, nil, false
		}
		a, b := new(big.Int).Mul(t.k, alo), new(big.Int).Mul(t.k, ahi)
		if a.Cmp(b) > 0 {
			a, b = b, a
		}
		lo.Add(lo, a)
		hi.Add(hi, b)
	}
	return lo, hi, true
}

// mulLin multiplies two linear forms (distributing into monomials).
func (x *b2i) mulLin(a, b *lin) *lin {
	if a.isConst() {
		return b.scale(a.c)
	}
	if b.isConst() {
		return a.scale(b.c)
	}
	r := linConst(new(big.Int).Mul(a.c, b.c))
	// const * terms
	for _, t := range a.terms {
		if b.c.Sign() != 0 {
			r = r.addScaled(linAtom(t.atom), new(big.Int).Mul(t.k, b.c))
		}
	}
	for _, t := range b.terms {
		if a.c.Sign() != 0 {
			r = r.addScaled(linAtom(t.atom), new(big.Int).Mul(t.k, a.c))
		}
	}
	for _, s := range a.terms {
		for _, t := range b.terms {
			m := x.monomial(s.atom, t.atom)
			r = r.addScaled(linAtom(m), new(big.Int).Mul(s.k, t.k))
		}
	}
	return r
}

func (x *b2i) monoFactors(a *Term) []*Term {
	if fs, ok := x.factors[a.ID]; ok {
		return fs
	}
	if a.Op == OIMul {
		return a.Args
	}
	return []*Term{a}
}

func (x *b2i) monomial(a, b *Term) *Term {
	fs := append(append([]*Term{}, x.monoFactors(a)...), x.monoFactors(b)...)
	sort.Slice(fs, func(i, j int) bool { return fs[i].ID < fs[j].ID })
	m := x.st.mk(OIMul, IntSort, fs, nil, "", 0, 0)
	if x.abstractMonos {
		// product atom: the monomial is an opaque integer (over-approximation, sound for unsat)
		real := m
		m = x.st.Sym(fmt.Sprintf("mono!%d", real.ID), IntSort)
		x.factors[m.ID] = fs
	}
	if _, ok := x.monos[m.ID]; !ok {
		x.monos[m.ID] = m
		alo, ahi := x.atomIv(a)
		blo, bhi := x.atomIv(b)
		if alo != nil && blo != nil {
			c := []*big.Int{new(big.Int).Mul(alo, blo), new(big.Int).Mul(alo, bhi), new(big.Int).Mul(ahi, blo), new(big.Int).Mul(ahi, bhi)}
			lo, hi := c[0], c[0]
			for _, v := range c[1:] {
				lo, hi = minB(lo, v), maxB(hi, v)
			}
			x.aiv[m.ID] = [2]*big.Int{lo, hi}
		}
	}
	return m
}

// quo returns floor(l / m) in normal form (m > 0 constant): multiples of m are pulled out.
func (x *b2i) quo(l *lin, m *big.Int) *lin {
	// |l| < m: the quotient is the sign indicator, whatever m is.  Borrow bits taken at different word widths
	// ((a - b) >> 63 of a 64-bit difference, the wrap of the same difference modulo 2^64) become one atom.
	if !x.noNest && os.Getenv("VERIF_NO_SIGN") == "" && !l.isConst() {
		if lo, hi, ok := x.linIv(l); ok && lo.Sign() < 0 && new(big.Int).Neg(m).Cmp(lo) <= 0 && hi.Cmp(m) < 0 {
			lt := x.term(l)
			x.addSide(x.st.And(x.st.ILe(x.st.IntConst(new(big.Int).Neg(m)), lt), x.st.ILt(lt, x.st.IntConst(m))))
			at := x.st.Ite(x.st.ILt(lt, x.st.Inti(0)), x.st.Inti(-1), x.st.Inti(0))
			if at.IsConst() {
				return linConst(at.Val)
			}
			x.aiv[at.ID] = [2]*big.Int{big.NewInt(-1), big.NewInt(0)}
			return linAtom(at)
		}
	}
	pulled := linConst(new(big.Int))
	rem := linConst(new(big.Int))
	q, r := new(big.Int).DivMod(l.c, m, new(big.Int))
	pulled.c.Set(q)
	rem.c.Set(r)
	for id, t := range l.terms {
		q, r := new(big.Int).DivMod(t.k, m, new(big.Int))
		if q.Sign() != 0 {
			pulled.terms[id] = &linTerm{k: q, atom: t.atom}
		}
		if r.Sign() != 0 {
			rem.terms[id] = &linTerm{k: r, atom: t.atom}
		}
	}
	if rem.isConst() {
		return pulled // 0 <= rem.c < m
	}
	// nested floor division: floor((R + floor(M / a)) / m) = floor((a R + M) / (a m)) for integer R and a, m > 0.
	// Two syntactically different ways of taking the same bits of one wide sum (a carry out of bit 56 taken
	// directly, or as the top of the slice above bit 40) then become the same atom and cancel linearly.
	if !x.noNest {
		var pick *linTerm
		n := 0
		for _, t := range rem.terms {
			if t.atom.Op == OIDiv && t.k.Cmp(bigOne) == 0 && t.atom.Args[1].IsConst() && t.atom.Args[1].Val.Sign() > 0 {
				n++
				if pick == nil || t.atom.ID < pick.atom.ID {
					pick = t
				}
			}
		}
		if n == 1 {
			a := pick.atom.Args[1].Val
			inner := x.liftInt(pick.atom.Args[0])
			rest := rem.sub(linAtom(pick.atom))
			return pulled.add(x.quo(rest.scale(a).add(inner), new(big.Int).Mul(a, m)))
		}
	}
	// known to lie in [0, m)?  (only from atom intervals; recorded as a side condition)
	if lo, hi, ok := x.linIv(rem); ok && lo.Sign() >= 0 && hi.Cmp(m) < 0 {
		x.addSide(x.st.And(x.st.ILe(x.st.Inti(0), x.term(rem)), x.st.ILt(x.term(rem), x.st.IntConst(m))))
		return pulled
	}
	at := x.st.mk(OIDiv, IntSort, []*Term{x.term(rem), x.st.IntConst(m)}, nil, "", 0, 0)
	if _, ok := x.aiv[at.ID]; !ok {
		if lo, hi, ok := x.linIv(rem); ok {
			x.aiv[at.ID] = [2]*big.Int{new(big.Int).Div(lo, m), new(big.Int).Div(hi, m)}
		}
	}
	return pulled.add(linAtom(at))
}

func (x *b2i) addSide(c *Term) {
	if c.IsTrue() || x.sideK[c.ID] {
		return
	}
	x.sideK[c.ID] = true
	x.side = append(x.side, c)
}

// collectBounds scans hypotheses for upper bounds on BV symbols.
func (x *b2i) collectBounds(hyps []*Term) {
	var visit func(t *Term)
	setUB := func(s *Term, b *big.Int) {
		for s.Op == OZext {
			s = s.Args[0]
		}
		if s.Op != OSym {
			return
		}
		if old, ok := x.ub[s]; !ok || b.Cmp(old) < 0 {
			x.ub[s] = b
		}
	}
	visit = func(t *Term) {
		switch t.Op {
		case OAnd:
			for _, a := range t.Args {
				visit(a)
			}
		case OBVUlt:
			if t.Args[1].IsConst() {
				setUB(t.Args[0], new(big.Int).Sub(t.Args[1].Val, bigOne))
			}
		case OBVUle:
			if t.Args[1].IsConst() {
				setUB(t.Args[0], t.Args[1].Val)
			}
		case ONot:
			a := t.Args[0]
			if a.Op == OBVUlt && a.Args[0].IsConst() {
				setUB(a.Args[1], a.Args[0].Val)
			}
			if a.Op == OBVUle && a.Args[0].IsConst() {
				setUB(a.Args[1], new(big.Int).Sub(a.Args[0].Val, bigOne))
			}
		}
	}
	for _, h := range hyps {
		visit(h)
	}
}

func (x *b2i) intVar(s *Term) *Term {
	if v, ok := x.vars[s]; ok {
		return v
	}
	v := x.st.Sym("i!"+s.Name, IntSort)
	x.vars[s] = v
	hi := mask(s.S.W)
	if b, ok := x.ub[s]; ok {
		hi = b
	}
	x.aiv[v.ID] = [2]*big.Int{big.NewInt(0), hi}
	return v
}

func minB(a, b *big.Int) *big.Int {
	if a.Cmp(b) < 0 {
		return a
	}
	return b
}
func maxB(a, b *big.Int) *big.Int {
	if a.Cmp(b) > 0 {
		return a
	}
	return b
}
func minInt(a, b int) int {
	if a < b {
		return a
	}
	return b
}

// modw reduces e modulo 2^w unless its interval already fits (then a side condition records the claim).
func (x *b2i) modw(e *lin, lo, hi *big.Int, w int, tz int) *liftRes {
	m := pow2(w)
	if lo.Sign() >= 0 && hi.Cmp(m) < 0 {
		if !e.isConst() {
			t := x.term(e)
			x.addSide(x.st.And(x.st.ILe(x.st.Inti(0), t), x.st.ILt(t, x.st.IntConst(m))))
		}
		return &liftRes{e: e, lo: lo, hi: hi, tz: tz}
	}
	if tz > w {
		tz = w
	}
	q := x.quo(e, m)
	return &liftRes{e: e.sub(q.scale(m)), lo: big.NewInt(0), hi: new(big.Int).Sub(m, bigOne), tz: tz}
}

func (x *b2i) lift(t *Term) *liftRes {
	if r, ok := x.cache[t.ID]; ok {
		return r
	}
	if !x.ok {
		return x.fail("")
	}
	w := t.S.W
	var r *liftRes
	switch t.Op {
	case OConst:
		tz := w
		if t.Val.Sign() != 0 {
			tz = int(t.Val.TrailingZeroBits())
		}
		r = &liftRes{e: linConst(t.Val), lo: t.Val, hi: t.Val, tz: tz}
	case OSym:
		v := x.intVar(t)
		iv := x.aiv[v.ID]
		r = &liftRes{e: linAtom(v), lo: iv[0], hi: iv[1]}
	case OZext:
		r = x.lift(t.Args[0])
	case OExtract:
		a := x.lift(t.Args[0])
		hiB, loB := t.P0, t.P1
		k := hiB - loB + 1
		cur := a.e
		lo, hi := a.lo, a.hi
		tz := a.tz
		if loB > 0 {
			d := pow2(loB)
			cur = x.quo(cur, d)
			lo = new(big.Int).Div(lo, d)
			hi = new(big.Int).Div(hi, d)
			tz -= loB
			if tz < 0 {
				tz = 0
			}
		}
		r = x.modw(cur, lo, hi, k, tz)
	case OConcat:
		h, l := x.lift(t.Args[0]), x.lift(t.Args[1])
		lw := t.Args[1].S.W
		sh := pow2(lw)
		tz := l.tz
		if l.hi.Sign() == 0 {
			tz = lw + h.tz
		}
		r = &liftRes{e: h.e.scale(sh).add(l.e), lo: new(big.Int).Add(new(big.Int).Mul(h.lo, sh), l.lo), hi: new(big.Int).Add(new(big.Int).Mul(h.hi, sh), l.hi), tz: tz}
	case OBVAdd:
		a, b := x.lift(t.Args[0]), x.lift(t.Args[1])
		r = x.modw(a.e.add(b.e), new(big.Int).Add(a.lo, b.lo), new(big.Int).Add(a.hi, b.hi), w, minInt(a.tz, b.tz))
	case OBVSub:
		a, b := x.lift(t.Args[0]), x.lift(t.Args[1])
		r = x.modw(a.e.sub(b.e), new(big.Int).Sub(a.lo, b.hi), new(big.Int).Sub(a.hi, b.lo), w, minInt(a.tz, b.tz))
	case OBVNeg:
		a := x.lift(t.Args[0])
		r = x.modw(a.e.scale(big.NewInt(-1)), new(big.Int).Neg(a.hi), new(big.Int).Neg(a.lo), w, a.tz)
	case OBVMul:
		a, b := x.lift(t.Args[0]), x.lift(t.Args[1])
		c := []*big.Int{new(big.Int).Mul(a.lo, b.lo), new(big.Int).Mul(a.lo, b.hi), new(big.Int).Mul(a.hi, b.lo), new(big.Int).Mul(a.hi, b.hi)}
		lo, hi := c[0], c[0]
		for _, v := range c[1:] {
			lo, hi = minB(lo, v), maxB(hi, v)
		}
		r = x.modw(x.mulLin(a.e, b.e), lo, hi, w, a.tz+b.tz)
	case OBVAnd:
		a0, a1 := t.Args[0], t.Args[1]
		if a0.IsConst() {
			a0, a1 = a1, a0
		}
		if !a1.IsConst() {
			return x.fail("bitwise and of two symbolic operands")
		}
		m := a1.Val
		if m.Sign() == 0 {
			r = &liftRes{e: linConst(big.NewInt(0)), lo: big.NewInt(0), hi: big.NewInt(0), tz: w}
			break
		}
		lo := int(m.TrailingZeroBits())
		run := new(big.Int).Rsh(m, uint(lo))
		k := run.BitLen()
		if new(big.Int).Add(run, bigOne).Cmp(pow2(k)) != 0 {
			return x.fail("mask is not a contiguous run of ones")
		}
		a := x.lift(a0)
		cur := a.e
		alo, ahi := a.lo, a.hi
		if lo > 0 {
			d := pow2(lo)
			cur = x.quo(cur, d)
			alo, ahi = new(big.Int).Div(alo, d), new(big.Int).Div(ahi, d)
		}
		mr := x.modw(cur, alo, ahi, k, 0)
		if lo > 0 {
			d := pow2(lo)
			r = &liftRes{e: mr.e.scale(d), lo: new(big.Int).Mul(mr.lo, d), hi: new(big.Int).Mul(mr.hi, d), tz: lo}
		} else {
			r = mr
		}
	case OBVOr:
		// or with a constant of few set bits: x | 2^k = x + 2^k * (1 - bit_k(x))
		{
			a0, a1 := t.Args[0], t.Args[1]
			if a0.IsConst() {
				a0, a1 = a1, a0
			}
			if a1.IsConst() && !a0.IsConst() {
				nb := 0
				for k := 0; k < w; k++ {
					if a1.Val.Bit(k) == 1 {
						nb++
					}
				}
				a := x.lift(a0)
				if nb <= 8 && !(a.tz > 0 && a1.Val.Cmp(pow2(a.tz)) < 0) && !(a.hi.Cmp(pow2(int(a1.Val.TrailingZeroBits()))) < 0) {
					e := a.e
					for k := 0; k < w; k++ {
						if a1.Val.Bit(k) == 1 {
							bit := x.quo(a.e, pow2(k)).sub(x.quo(a.e, pow2(k+1)).scale(big.NewInt(2)))
							e = e.add(linConst(pow2(k))).sub(bit.scale(pow2(k)))
						}
					}
					r = &liftRes{e: e, lo: big.NewInt(0), hi: mask(w)}
					break
				}
			}
		}
		a, b := x.lift(t.Args[0]), x.lift(t.Args[1])
		switch {
		case a.hi.Sign() == 0:
			r = b
		case b.hi.Sign() == 0:
			r = a
		case a.tz > 0 && b.hi.Cmp(pow2(a.tz)) < 0 && b.lo.Sign() >= 0:
			r = &liftRes{e: a.e.add(b.e), lo: new(big.Int).Add(a.lo, b.lo), hi: new(big.Int).Add(a.hi, b.hi), tz: b.tz}
		case b.tz > 0 && a.hi.Cmp(pow2(b.tz)) < 0 && a.lo.Sign() >= 0:
			r = &liftRes{e: a.e.add(b.e), lo: new(big.Int).Add(a.lo, b.lo), hi: new(big.Int).Add(a.hi, b.hi), tz: a.tz}
		default:
			return x.fail("bitwise or of operands not known to be bit-disjoint")
		}
	case OIte:
		c := x.liftBool(t.Args[0])
		a, b := x.lift(t.Args[1]), x.lift(t.Args[2])
		at := x.st.Ite(c, x.term(a.e), x.term(b.e))
		var e *lin
		if at.IsConst() {
			e = linConst(at.Val)
		} else {
			e = linAtom(at)
			x.aiv[at.ID] = [2]*big.Int{minB(a.lo, b.lo), maxB(a.hi, b.hi)}
		}
		r = &liftRes{e: e, lo: minB(a.lo, b.lo), hi: maxB(a.hi, b.hi), tz: minInt(a.tz, b.tz)}
	case OUF:
		// an uninterpreted bit-vector value: an opaque bounded integer (one atom per distinct application)
		v := x.st.Sym(fmt.Sprintf("i!uf%d", t.ID), IntSort)
		if _, ok := x.aiv[v.ID]; !ok {
			x.aiv[v.ID] = [2]*big.Int{big.NewInt(0), mask(w)}
			x.defs = append(x.defs, x.st.ILe(x.st.Inti(0), v), x.st.ILe(v, x.st.IntConst(mask(w))))
		}
		r = &liftRes{e: linAtom(v), lo: big.NewInt(0), hi: mask(w)}
	case OBVLshr, OBVShl, OBVAshr:
		return x.fail("shift by a symbolic amount")
	case OBVXor:
		// xor with a constant of few set bits: x ^ 2^k = x + 2^k - 2^(k+1) * bit_k(x)
		{
			a0, a1 := t.Args[0], t.Args[1]
			if a0.IsConst() {
				a0, a1 = a1, a0
			}
			if a1.IsConst() && !a0.IsConst() {
				nb := 0
				for k := 0; k < w; k++ {
					if a1.Val.Bit(k) == 1 {
						nb++
					}
				}
				if nb <= 8 {
					a := x.lift(a0)
					e := a.e
					for k := 0; k < w; k++ {
						if a1.Val.Bit(k) == 1 {
							bit := x.quo(a.e, pow2(k)).sub(x.quo(a.e, pow2(k+1)).scale(big.NewInt(2)))
							e = e.add(linConst(pow2(k))).sub(bit.scale(pow2(k + 1)))
						}
					}
					r = &liftRes{e: e, lo: big.NewInt(0), hi: mask(w)}
					break
				}
			}
		}
		a, b := x.lift(t.Args[0]), x.lift(t.Args[1])
		switch {
		case a.hi.Sign() == 0:
			r = b
		case b.hi.Sign() == 0:
			r = a
		case a.tz > 0 && b.hi.Cmp(pow2(a.tz)) < 0 && b.lo.Sign() >= 0:
			r = &liftRes{e: a.e.add(b.e), lo: new(big.Int).Add(a.lo, b.lo), hi: new(big.Int).Add(a.hi, b.hi), tz: b.tz}
		case b.tz > 0 && a.hi.Cmp(pow2(b.tz)) < 0 && a.lo.Sign() >= 0:
			r = &liftRes{e: a.e.add(b.e), lo: new(big.Int).Add(a.lo, b.lo), hi: new(big.Int).Add(a.hi, b.hi), tz: a.tz}
		default:
			return x.fail("bitwise xor of operands not known to be bit-disjoint")
		}
	case OInt2BV:
		// unsigned value of int2bv(z) = z mod 2^w
		a := x.liftInt(t.Args[0])
		m := pow2(w)
		lo, hi, ok := x.linIv(a)
		if ok && lo.Sign() >= 0 && hi.Cmp(m) < 0 {
			r = &liftRes{e: a, lo: lo, hi: hi}
			if !a.isConst() {
				tt := x.term(a)
				x.addSide(x.st.And(x.st.ILe(x.st.Inti(0), tt), x.st.ILt(tt, x.st.IntConst(m))))
			}
		} else {
			q := x.quo(a, m)
			r = &liftRes{e: a.sub(q.scale(m)), lo: big.NewInt(0), hi: new(big.Int).Sub(m, bigOne)}
		}
	case OBVNot:
		return x.fail("bitwise not of a symbolic operand")
	case OBVUDiv, OBVURem:
		a := x.lift(t.Args[0])
		if !t.Args[1].IsConst() || t.Args[1].Val.Sign() == 0 {
			return x.fail("division by non-constant")
		}
		d := t.Args[1].Val
		q := x.quo(a.e, d)
		if t.Op == OBVUDiv {
			r = &liftRes{e: q, lo: new(big.Int).Div(a.lo, d), hi: new(big.Int).Div(a.hi, d)}
		} else {
			r = &liftRes{e: a.e.sub(q.scale(d)), lo: big.NewInt(0), hi: new(big.Int).Sub(d, bigOne)}
		}
	default:
		return x.fail(fmt.Sprintf("bit-vector operation %d", t.Op))
	}
	x.cache[t.ID] = r
	return r
}

// liftBool translates a Bool term whose atoms may mention bit-vectors.
func (x *b2i) liftBool(t *Term) *Term {
	if r, ok := x.bcache[t.ID]; ok {
		return r
	}
	st := x.st
	var r *Term
	switch t.Op {
	case OConst, OSym:
		r = t
	case ONot:
		r = st.Not(x.liftBool(t.Args[0]))
	case OAnd, OOr:
		args := make([]*Term, len(t.Args))
		for i, a := range t.Args {
			args[i] = x.liftBool(a)
		}
		if t.Op == OAnd {
			r = st.And(args...)
		} else {
			r = st.Or(args...)
		}
	case OIte:
		r = st.Ite(x.liftBool(t.Args[0]), x.liftBool(t.Args[1]), x.liftBool(t.Args[2]))
	case OEq:
		a, b := t.Args[0], t.Args[1]
		switch a.S.K {
		case SBool:
			r = st.Eq(x.liftBool(a), x.liftBool(b))
		case SBV:
			d := x.lift(a).e.sub(x.lift(b).e)
			r = st.Eq(x.term(d), st.Inti(0))
		case SInt:
			d := x.liftInt(a).sub(x.liftInt(b))
			r = st.Eq(x.term(d), st.Inti(0))
		default:
			x.fail("equality over an unsupported sort")
			r = t
		}
	case OBVUlt:
		r = st.ILt(x.term(x.lift(t.Args[0]).e.sub(x.lift(t.Args[1]).e)), st.Inti(0))
	case OBVUle:
		r = st.ILe(x.term(x.lift(t.Args[0]).e.sub(x.lift(t.Args[1]).e)), st.Inti(0))
	case OBVSlt, OBVSle:
		// signed value = U - 2^w * signbit(U), signbit(U) = floor(U / 2^(w-1))
		w := t.Args[0].S.W
		sv := func(a *liftRes) *lin {
			if a.hi.Cmp(pow2(w-1)) < 0 {
				return a.e
			}
			return a.e.sub(x.quo(a.e, pow2(w-1)).scale(pow2(w)))
		}
		d := x.term(sv(x.lift(t.Args[0])).sub(sv(x.lift(t.Args[1]))))
		if t.Op == OBVSlt {
			r = st.ILt(d, st.Inti(0))
		} else {
			r = st.ILe(d, st.Inti(0))
		}
	case OUF:
		r = t // an uninterpreted predicate: an opaque Boolean atom
	case OILe:
		r = st.ILe(x.term(x.liftInt(t.Args[0]).sub(x.liftInt(t.Args[1]))), st.Inti(0))
	case OILt:
		r = st.ILt(x.term(x.liftInt(t.Args[0]).sub(x.liftInt(t.Args[1]))), st.Inti(0))
	default:
		x.fail("boolean operator over unsupported terms")
		r = t
	}
	x.bcache[t.ID] = r
	return r
}

// liftInt rewrites integer (specification) terms into the normal form.
func (x *b2i) liftInt(t *Term) *lin {
	if r, ok := x.cache[1<<40+t.ID]; ok {
		return r.e
	}
	var r *lin
	switch t.Op {
	case OConst:
		r = linConst(t.Val)
	case OSym:
		r = linAtom(t)
	case OBV2Nat:
		r = x.lift(t.Args[0]).e
	case OIte:
		c := x.liftBool(t.Args[0])
		at := x.st.Ite(c, x.term(x.liftInt(t.Args[1])), x.term(x.liftInt(t.Args[2])))
		if at.IsConst() {
			r = linConst(at.Val)
		} else {
			r = linAtom(at)
		}
	case OIAdd:
		r = linConst(new(big.Int))
		for _, a := range t.Args {
			r = r.add(x.liftInt(a))
		}
	case OISub:
		r = x.liftInt(t.Args[0]).sub(x.liftInt(t.Args[1]))
	case OIMul:
		r = linConst(big.NewInt(1))
		for _, a := range t.Args {
			r = x.mulLin(r, x.liftInt(a))
		}
	case OIDiv, OIMod:
		if !t.Args[1].IsConst() || t.Args[1].Val.Sign() <= 0 {
			x.fail("div/mod by non-constant in specification")
			r = linConst(new(big.Int))
			break
		}
		a := x.liftInt(t.Args[0])
		m := t.Args[1].Val
		if t.Op == OIDiv {
			r = x.quo(a, m)
			break
		}
		if !x.noInv && len(x.st.invPairs) > 0 && x.st.invModulus != nil && m.Cmp(x.st.invModulus) == 0 {
			a = x.reduceInverses(a)
		}
		r = x.residue(a, m)
	default:
		x.fail("integer operator not supported by the lifting")
		r = linConst(new(big.Int))
	}
	x.cache[1<<40+t.ID] = &liftRes{e: r}
	return r
}

// liftToInt returns Int-only versions of hyps/goal plus the conjunction of no-wrap side conditions.
func (st *Store) liftToInt(hyps []*Term, goal *Term, abstractMonos bool) (nh []*Term, ng *Term, side *Term, ok bool, why string) {
	x := &b2i{noNest: os.Getenv("VERIF_NO_NEST") != "", st: st, ub: map[*Term]*big.Int{}, cache: map[int]*liftRes{}, vars: map[*Term]*Term{}, ok: true,
		sideK: map[int]bool{}, monos: map[int]*Term{}, aiv: map[int][2]*big.Int{}, bcache: map[int]*Term{}, known: map[int][2]*big.Int{}, rhos: map[string]*Term{}, factors: map[int][]*Term{}, abstractMonos: abstractMonos}
	x.collectBounds(hyps)
	for _, h := range hyps {
		if st.invDefs[h] {
			// the hypothesis z*w == 1 (mod p) that justifies the rewriting must itself be kept as it is
			saveC, saveB := x.cache, x.bcache
			x.cache, x.bcache = map[int]*liftRes{}, map[int]*Term{}
			x.noInv = true
			nh = append(nh, x.liftBool(h))
			x.noInv = false
			x.cache, x.bcache = saveC, saveB
			continue
		}
		nh = append(nh, x.liftBool(h))
	}
	if goal != nil {
		ng = x.liftBool(goal)
	}
	if !x.ok {
		return nil, nil, nil, false, x.why
	}
	var ids []int
	byID := map[int]*Term{}
	for s, v := range x.vars {
		ids = append(ids, v.ID)
		byID[v.ID] = s
	}
	sort.Ints(ids)
	for _, id := range ids {
		s := byID[id]
		v := x.vars[s]
		iv := x.aiv[v.ID]
		nh = append(nh, st.ILe(st.Inti(0), v), st.ILe(v, st.IntConst(iv[1])))
	}
	// valid facts about monomials: bounds implied by the factor bounds (sound lemma instances)
	var mids []int
	for id := range x.monos {
		mids = append(mids, id)
	}
	sort.Ints(mids)
	for _, id := range mids {
		m := x.monos[id]
		if iv, ok := x.aiv[id]; ok {
			allVars := true
			for _, f := range x.monoFactors(m) {
				if f.Op != OSym {
					allVars = false
				}
			}
			if allVars {
				nh = append(nh, st.ILe(st.IntConst(iv[0]), m), st.ILe(m, st.IntConst(iv[1])))
			}
		}
	}
	nh = append(nh, x.defs...)
	side = st.And(x.side...)
	return nh, ng, side, true, ""
}

// reduceInverses rewrites monomials modulo declared inverse pairs (z*w == 1 mod invModulus).  Only used for the
// argument of "mod invModulus", where congruent arguments give the same residue.
func (x *b2i) reduceInverses(l *lin) *lin {
	out := linConst(l.c)
	for _, t := range l.terms {
		fs := append([]*Term{}, x.monoFactors(t.atom)...)
		changed := true
		for changed {
			changed = false
			for _, pr := range x.st.invPairs {
				zi, wi := -1, -1
				for i, f := range fs {
					if f == pr[0] && zi < 0 {
						zi = i
					} else if f == pr[1] && wi < 0 {
						wi = i
					}
				}
				if zi >= 0 && wi >= 0 {
					var nf []*Term
					for i, f := range fs {
						if i != zi && i != wi {
							nf = append(nf, f)
						}
					}
					fs = nf
					changed = true
				}
			}
		}
		if len(fs) == len(x.monoFactors(t.atom)) {
			out = out.addScaled(linAtom(t.atom), t.k)
			continue
		}
		switch len(fs) {
		case 0:
			out.c.Add(out.c, t.k)
		case 1:
			out = out.addScaled(linAtom(fs[0]), t.k)
		default:
			m := fs[0]
			for _, f := range fs[1:] {
				m = x.monomial(m, f)
			}
			out = out.addScaled(linAtom(m), t.k)
		}
	}
	return out
}

// residue returns l mod m (m > 0 constant).  Coefficients are first reduced modulo m (multiples of m do not
// change the residue); a remaining non-constant form gets a defining variable rho with rem = m*kappa + rho,
// 0 <= rho < m, so that every later use (byte slices, comparisons) refers to one small atom.
func (x *b2i) residue(l *lin, m *big.Int) *lin {
	rem := linConst(new(big.Int).Mod(l.c, m))
	for id, t := range l.terms {
		k := new(big.Int).Mod(t.k, m)
		if k.Sign() != 0 {
			rem.terms[id] = &linTerm{k: k, atom: t.atom}
		}
	}
	if rem.isConst() {
		return rem
	}
	if lo, hi, ok := x.linIv(rem); ok && lo.Sign() >= 0 && hi.Cmp(m) < 0 {
		x.addSide(x.st.And(x.st.ILe(x.st.Inti(0), x.term(rem)), x.st.ILt(x.term(rem), x.st.IntConst(m))))
		return rem
	}
	// canonical sign: l and -l share one defining variable (rho(-l) = 0 if rho(l) = 0 else m - rho(l)), so that
	// negation mod m is exact without any arithmetic reasoning by the solver
	if ts := rem.sorted(); len(ts) > 0 && rem.c.Sign() == 0 && new(big.Int).Lsh(ts[0].k, 1).Cmp(m) > 0 {
		neg := linConst(new(big.Int))
		for id, t := range rem.terms {
			neg.terms[id] = &linTerm{k: new(big.Int).Sub(m, t.k), atom: t.atom}
		}
		rn := x.residue(neg, m)
		if rn.isConst() {
			if rn.c.Sign() == 0 {
				return rn
			}
			return linConst(new(big.Int).Sub(m, rn.c))
		}
		rnT := x.term(rn)
		at := x.st.Ite(x.st.Eq(rnT, x.st.Inti(0)), x.st.Inti(0), x.st.ISub(x.st.IntConst(m), rnT))
		x.aiv[at.ID] = [2]*big.Int{big.NewInt(0), new(big.Int).Sub(m, bigOne)}
		return linAtom(at)
	}
	rt := x.term(rem)
	key := fmt.Sprintf("%d mod %s", rt.ID, m.Text(16))
	if rho, ok := x.rhos[key]; ok {
		return linAtom(rho)
	}
	n := len(x.rhos) + 1
	rho := x.st.Sym(fmt.Sprintf("rho!%d", n), IntSort)
	kap := x.st.Sym(fmt.Sprintf("kappa!%d", n), IntSort)
	x.rhos[key] = rho
	x.aiv[rho.ID] = [2]*big.Int{big.NewInt(0), new(big.Int).Sub(m, bigOne)}
	st := x.st
	def := st.Eq(rt, st.mk(OIAdd, IntSort, []*Term{st.mk(OIMul, IntSort, []*Term{st.IntConst(m), kap}, nil, "", 0, 0), rho}, nil, "", 0, 0))
	x.defs = append(x.defs, def, st.ILe(st.Inti(0), rho), st.ILe(rho, st.IntConst(new(big.Int).Sub(m, bigOne))))
	return linAtom(rho)
}
