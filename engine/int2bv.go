package main

// Int -> BV lowering of obligations.  Harness specifications are written over
// mathematical integers (vZ); when every integer term of an obligation is
// built from bv2nat, constants, +, -, * and div/mod by positive constants, all
// of them have computable bounds, so the whole obligation can be evaluated in
// two's-complement bit-vectors of a width that provably cannot wrap.  The
// bit-blasting back ends decide such obligations far better than the
// mixed BV/Int encoding.  The pass is exact (not an abstraction): widths come
// from interval arithmetic on the terms themselves.

import (
	"math/big"
)

type ival struct{ lo, hi *big.Int }

type i2b struct {
	st    *Store
	iv    map[int]*ival
	ok    bool
	w     int
	cache map[int]*Term
	why   string
}

func bvUpper(t *Term) *big.Int {
	switch t.Op {
	case OConst:
		return new(big.Int).Set(t.Val)
	case OZext:
		return bvUpper(t.Args[0])
	case OIte:
		a, b := bvUpper(t.Args[1]), bvUpper(t.Args[2])
		if a.Cmp(b) > 0 {
			return a
		}
		return b
	case OBVAnd:
		a, b := bvUpper(t.Args[0]), bvUpper(t.Args[1])
		if a.Cmp(b) < 0 {
			return a
		}
		return b
	case OConcat:
		// hi:lo
		h := bvUpper(t.Args[0])
		h.Lsh(h, uint(t.Args[1].S.W))
		return h.Add(h, bvUpper(t.Args[1]))
	}
	return mask(t.S.W)
}

func (x *i2b) interval(t *Term) *ival {
	if v, ok := x.iv[t.ID]; ok {
		return v
	}
	var r *ival
	fail := func(why string) *ival {
		if x.ok {
			x.why = why
		}
		x.ok = false
		return &ival{big.NewInt(0), big.NewInt(0)}
	}
	switch t.Op {
	case OConst:
		r = &ival{t.Val, t.Val}
	case OBV2Nat:
		r = &ival{big.NewInt(0), bvUpper(t.Args[0])}
	case OIAdd:
		lo, hi := new(big.Int), new(big.Int)
		for _, a := range t.Args {
			ia := x.interval(a)
			lo.Add(lo, ia.lo)
			hi.Add(hi, ia.hi)
		}
		r = &ival{lo, hi}
	case OISub:
		a, b := x.interval(t.Args[0]), x.interval(t.Args[1])
		r = &ival{new(big.Int).Sub(a.lo, b.hi), new(big.Int).Sub(a.hi, b.lo)}
	case OIMul:
		cur := &ival{big.NewInt(1), big.NewInt(1)}
		nonconst := 0
		for _, a := range t.Args {
			if !a.IsConst() {
				nonconst++
			}
			ia := x.interval(a)
			c := []*big.Int{new(big.Int).Mul(cur.lo, ia.lo), new(big.Int).Mul(cur.lo, ia.hi), new(big.Int).Mul(cur.hi, ia.lo), new(big.Int).Mul(cur.hi, ia.hi)}
			lo, hi := c[0], c[0]
			for _, v := range c[1:] {
				if v.Cmp(lo) < 0 {
					lo = v
				}
				if v.Cmp(hi) > 0 {
					hi = v
				}
			}
			cur = &ival{lo, hi}
		}
		if nonconst > 1 {
			return fail("product of two symbolic integers")
		}
		r = cur
	case OIMod:
		if !t.Args[1].IsConst() || t.Args[1].Val.Sign() <= 0 {
			return fail("mod by non-constant")
		}
		x.interval(t.Args[0])
		r = &ival{big.NewInt(0), new(big.Int).Sub(t.Args[1].Val, bigOne)}
	case OIDiv:
		if !t.Args[1].IsConst() || t.Args[1].Val.Sign() <= 0 {
			return fail("div by non-constant")
		}
		a := x.interval(t.Args[0])
		if a.lo.Sign() < 0 {
			return fail("div of possibly negative dividend")
		}
		r = &ival{new(big.Int).Div(a.lo, t.Args[1].Val), new(big.Int).Div(a.hi, t.Args[1].Val)}
	case OIte:
		a, b := x.interval(t.Args[1]), x.interval(t.Args[2])
		lo, hi := a.lo, a.hi
		if b.lo.Cmp(lo) < 0 {
			lo = b.lo
		}
		if b.hi.Cmp(hi) > 0 {
			hi = b.hi
		}
		r = &ival{lo, hi}
	default:
		return fail("unbounded integer term (" + t.Name + ")")
	}
	x.iv[t.ID] = r
	return r
}

// scan computes intervals for every Int-sorted subterm; fails on unsupported constructs.
func (x *i2b) scan(ts []*Term) {
	seen := map[int]bool{}
	var stack []*Term
	stack = append(stack, ts...)
	for len(stack) > 0 && x.ok {
		t := stack[len(stack)-1]
		stack = stack[:len(stack)-1]
		if seen[t.ID] {
			continue
		}
		seen[t.ID] = true
		if t.S.K == SSeq {
			x.ok = false
			x.why = "sequence term"
			return
		}
		if t.S.K == SInt {
			x.interval(t)
		}
		if t.Op == OUF {
			for _, a := range t.Args {
				if a.S.K == SInt {
					x.ok = false
					x.why = "UF with integer argument"
					return
				}
			}
			if t.S.K == SInt {
				x.ok = false
				x.why = "integer-valued UF"
				return
			}
		}
		if t.Op == OInt2BV {
			x.ok = false
			x.why = "int2bv"
			return
		}
		stack = append(stack, t.Args...)
	}
}

func bitsFor(lo, hi *big.Int) int {
	n := hi.BitLen()
	if lo.Sign() < 0 {
		m := new(big.Int).Neg(lo)
		m.Sub(m, bigOne)
		if m.BitLen() > n {
			n = m.BitLen()
		}
	}
	return n + 1 // sign bit
}

func (x *i2b) tr(t *Term) *Term {
	if r, ok := x.cache[t.ID]; ok {
		return r
	}
	st := x.st
	var r *Term
	if t.S.K == SInt {
		W := x.w
		switch t.Op {
		case OConst:
			r = st.BVConst(t.Val, W)
		case OBV2Nat:
			r = st.Zext(t.Args[0], W-t.Args[0].S.W)
		case OIAdd:
			r = x.tr(t.Args[0])
			for _, a := range t.Args[1:] {
				r = st.BVAdd(r, x.tr(a))
			}
		case OISub:
			r = st.BVSub(x.tr(t.Args[0]), x.tr(t.Args[1]))
		case OIMul:
			r = x.tr(t.Args[0])
			for _, a := range t.Args[1:] {
				r = st.BVMul(r, x.tr(a))
			}
		case OIMod:
			a := x.tr(t.Args[0])
			c := st.BVConst(t.Args[1].Val, W)
			if x.iv[t.Args[0].ID].lo.Sign() >= 0 {
				r = st.BVURem(a, c)
			} else {
				neg := st.BVSlt(a, st.BVu(0, W))
				m := st.BVURem(st.BVNeg(a), c)
				r = st.Ite(neg, st.BVURem(st.BVSub(c, m), c), st.BVURem(a, c))
			}
		case OIDiv:
			r = st.BVUDiv(x.tr(t.Args[0]), st.BVConst(t.Args[1].Val, W))
		case OIte:
			r = st.Ite(x.tr(t.Args[0]), x.tr(t.Args[1]), x.tr(t.Args[2]))
		default:
			panic("i2b: unexpected int op")
		}
		x.cache[t.ID] = r
		return r
	}
	switch t.Op {
	case OILe:
		r = st.BVSle(x.tr(t.Args[0]), x.tr(t.Args[1]))
	case OILt:
		r = st.BVSlt(x.tr(t.Args[0]), x.tr(t.Args[1]))
	case OEq:
		r = st.Eq(x.tr(t.Args[0]), x.tr(t.Args[1]))
	case OConst, OSym:
		r = t
	default:
		// rebuild if any argument changed
		changed := false
		args := make([]*Term, len(t.Args))
		for i, a := range t.Args {
			args[i] = x.tr(a)
			if args[i] != a {
				changed = true
			}
		}
		if !changed {
			r = t
		} else {
			r = st.rebuild(t, args)
		}
	}
	x.cache[t.ID] = r
	return r
}

// rebuild constructs a term like t with new arguments (through the simplifying constructors).
func (st *Store) rebuild(t *Term, a []*Term) *Term {
	switch t.Op {
	case ONot:
		return st.Not(a[0])
	case OAnd:
		return st.And(a...)
	case OOr:
		return st.Or(a...)
	case OEq:
		return st.Eq(a[0], a[1])
	case OIte:
		return st.Ite(a[0], a[1], a[2])
	case OUF:
		return st.UF(t.Name, t.S, a...)
	case OBVAdd, OBVSub, OBVMul, OBVUDiv, OBVURem, OBVSDiv, OBVSRem, OBVAnd, OBVOr, OBVXor, OBVShl, OBVLshr, OBVAshr:
		return st.bvBin(t.Op, a[0], a[1])
	case OBVNot:
		return st.BVNot(a[0])
	case OBVNeg:
		return st.BVNeg(a[0])
	case OBVUlt, OBVUle, OBVSlt, OBVSle:
		return st.bvCmp(t.Op, a[0], a[1])
	case OConcat:
		return st.Concat(a[0], a[1])
	case OExtract:
		return st.Extract(a[0], t.P0, t.P1)
	case OZext:
		return st.Zext(a[0], t.P0)
	case OSext:
		return st.Sext(a[0], t.P0)
	}
	panic("rebuild: unsupported op")
}

// lowerIntToBV returns BV-only versions of hyps/goal, or ok=false with the reason.
func (st *Store) lowerIntToBV(hyps []*Term, goal *Term) ([]*Term, *Term, int, bool, string) {
	x := &i2b{st: st, iv: map[int]*ival{}, ok: true, cache: map[int]*Term{}}
	all := append([]*Term{}, hyps...)
	if goal != nil {
		all = append(all, goal)
	}
	x.scan(all)
	if !x.ok {
		return nil, nil, 0, false, x.why
	}
	w := 2
	for _, v := range x.iv {
		if b := bitsFor(v.lo, v.hi); b > w {
			w = b
		}
	}
	if w > 2100 {
		return nil, nil, 0, false, "width too large"
	}
	x.w = w + 1
	nh := make([]*Term, len(hyps))
	for i, h := range hyps {
		nh[i] = x.tr(h)
	}
	var ng *Term
	if goal != nil {
		ng = x.tr(goal)
	}
	return nh, ng, x.w, true, ""
}
