#!/bin/sh
# builds the symbolic-execution engine from the sources in /verif/engine (offline)
cd "$(dirname "$0")" || exit 2
export GOFLAGS=-mod=mod GOPROXY=off GOSUMDB=off GOTOOLCHAIN=local
mkdir -p bin evidence
(cd engine && go build -o ../bin/verif-engine ./) || exit 2
echo "engine built: $(pwd)/bin/verif-engine"
